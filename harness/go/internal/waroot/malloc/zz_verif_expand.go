//go:build verif

package malloc

import (
	"bytes"
	"html/template"
)

// ExpandedWat returns the allocator's WAT text for a configuration, built exactly as (*Heap).init does.
func ExpandedWat(cfg *Config) ([]byte, error) {
	var buf bytes.Buffer
	buf.WriteString("(module $malloc\n")
	if err := template.Must(template.New("wat").Parse(malloc_wat)).Execute(&buf, cfg); err != nil {
		return nil, err
	}
	buf.WriteString("\n)")
	return buf.Bytes(), nil
}
