//go:build verif

// Command wbuild produces the WebAssembly modules the E2 checks execute, with
// the code of the current tree (wat2wasm, the Wa compiler, the malloc template,
// watstrip, the WAT printer). It is overlaid into /repo at check time.
//
//	wbuild wat2wasm  in.wat  out.wasm
//	wbuild wa        in.wa   out.wasm [out.wat]
//	wbuild malloc    out.wasm pages pagesMax stackPtr heapBase lfixedCap
//	wbuild watstrip  in.wat  out.wat
//	wbuild batch     list.txt            (one command per line, same syntax)
package main

import (
	"bufio"
	"context"
	"fmt"
	"os"
	"strconv"
	"strings"

	"wa-lang.org/wa/api"
	"wa-lang.org/wa/internal/3rdparty/wazero"
	"wa-lang.org/wa/internal/waroot/malloc"
	"wa-lang.org/wa/internal/wat/watutil"
	"wa-lang.org/wa/internal/wat/watutil/wat2c"
	"wa-lang.org/wa/internal/wat/watutil/watfmt"
	"wa-lang.org/wa/internal/wat/watutil/watstrip"
)

func run(args []string) error {
	switch args[0] {
	case "wat2wasm":
		src, err := os.ReadFile(args[1])
		if err != nil {
			return err
		}
		out, err := watutil.Wat2Wasm(args[1], src)
		if err != nil {
			return err
		}
		return os.WriteFile(args[2], out, 0o644)
	case "wa":
		src, err := os.ReadFile(args[1])
		if err != nil {
			return err
		}
		cfg := api.DefaultConfig()
		_, wat, _, err := api.BuildFile(cfg, args[1], src)
		if err != nil {
			return err
		}
		if len(args) > 3 {
			if err := os.WriteFile(args[3], wat, 0o644); err != nil {
				return err
			}
		}
		out, err := watutil.Wat2Wasm(args[1]+".wat", wat)
		if err != nil {
			return err
		}
		return os.WriteFile(args[2], out, 0o644)
	case "wa-rt":
		// compile a Wa program and export the runtime allocator entry points and heap globals
		// (exports are added to the text; no code is changed)
		src, err := os.ReadFile(args[1])
		if err != nil {
			return err
		}
		_, wat, _, err := api.BuildFile(api.DefaultConfig(), args[1], src)
		if err != nil {
			return err
		}
		txt := string(wat)
		end := strings.LastIndex(txt, ")")
		if end < 0 || strings.TrimSpace(strings.TrimPrefix(strings.TrimSpace(txt[end+1:]), ";;module")) != "" {
			return fmt.Errorf("wa-rt: cannot find the closing parenthesis of the module")
		}
		txt = txt[:end]
		for _, f := range []string{"runtime.malloc", "runtime.free"} {
			txt += fmt.Sprintf("(export \"vf:%s\" (func $%s))\n", f, f)
		}
		for _, g := range []string{"__heap_base", "__heap_ptr", "__heap_top", "__heap_l128_freep", "__heap_lfixed_cap"} {
			txt += fmt.Sprintf("(export \"%s\" (global $%s))\n", g, g)
		}
		txt += ")\n"
		out, err := watutil.Wat2Wasm(args[1]+".wat", []byte(txt))
		if err != nil {
			return err
		}
		return os.WriteFile(args[2], out, 0o644)
	case "wat2c":
		// wbuild wat2c in.wat out.c out.h prefix
		src, err := os.ReadFile(args[1])
		if err != nil {
			return err
		}
		_, code, header, err := watutil.Wat2C(args[1], src, wat2c.Options{Prefix: args[4]})
		if err != nil {
			return err
		}
		if err := os.WriteFile(args[3], header, 0o644); err != nil {
			return err
		}
		return os.WriteFile(args[2], code, 0o644)
	case "malloc":
		n := func(i int) int32 { v, _ := strconv.Atoi(args[i]); return int32(v) }
		h := malloc.NewHeap(&malloc.Config{MemoryPages: n(2), MemoryPagesMax: n(3), StackPtr: n(4), HeapBase: n(5), HeapLFixedCap: n(6)})
		return os.WriteFile(args[1], h.WasmBytes(), 0o644)
	case "validate":
		// wbuild validate in.wasm: the vendored WebAssembly engine must accept the binary (decode + validation)
		bin, err := os.ReadFile(args[1])
		if err != nil {
			return err
		}
		ctx := context.Background()
		rt := wazero.NewRuntimeWithConfig(ctx, wazero.NewRuntimeConfigInterpreter())
		defer rt.Close(ctx)
		_, err = rt.CompileModule(ctx, bin)
		return err
	case "watfmt":
		src, err := os.ReadFile(args[1])
		if err != nil {
			return err
		}
		out, err := watfmt.Format(args[1], src)
		if err != nil {
			return err
		}
		return os.WriteFile(args[2], out, 0o644)
	case "malloc-wat":
		// the expanded allocator text (as malloc.NewHeap assembles it): wbuild malloc-wat out.wat pages pagesMax stackPtr heapBase lfixedCap
		n := func(i int) int32 { v, _ := strconv.Atoi(args[i]); return int32(v) }
		txt, err := malloc.ExpandedWat(&malloc.Config{MemoryPages: n(2), MemoryPagesMax: n(3), StackPtr: n(4), HeapBase: n(5), HeapLFixedCap: n(6)})
		if err != nil {
			return err
		}
		return os.WriteFile(args[1], txt, 0o644)
	case "watstrip":
		src, err := os.ReadFile(args[1])
		if err != nil {
			return err
		}
		out, err := watstrip.WatStrip(args[1], src)
		if err != nil {
			return err
		}
		return os.WriteFile(args[2], out, 0o644)
	case "batch-keepgoing":
		// like batch, but a failing command is reported on stdout as "FAILED <n> <error>" and the rest still run
		f, err := os.Open(args[1])
		if err != nil {
			return err
		}
		defer f.Close()
		sc := bufio.NewScanner(f)
		for n := 0; sc.Scan(); n++ {
			fs := strings.Fields(sc.Text())
			if len(fs) == 0 {
				continue
			}
			func() {
				defer func() {
					if r := recover(); r != nil {
						fmt.Printf("FAILED %d panic: %v\n", n, r)
					}
				}()
				if err := run(fs); err != nil {
					fmt.Printf("FAILED %d %s\n", n, strings.ReplaceAll(err.Error(), "\n", " "))
				}
			}()
		}
		return nil
	case "batch":
		f, err := os.Open(args[1])
		if err != nil {
			return err
		}
		defer f.Close()
		sc := bufio.NewScanner(f)
		for sc.Scan() {
			fs := strings.Fields(sc.Text())
			if len(fs) == 0 {
				continue
			}
			if err := run(fs); err != nil {
				return fmt.Errorf("%s: %w", sc.Text(), err)
			}
		}
		return nil
	}
	return fmt.Errorf("unknown command %q", args[0])
}

func main() {
	if len(os.Args) < 2 {
		fmt.Fprintln(os.Stderr, "usage: wbuild <cmd> ...")
		os.Exit(2)
	}
	if err := run(os.Args[1:]); err != nil {
		fmt.Fprintln(os.Stderr, "wbuild:", err)
		os.Exit(1)
	}
}
