//go:build verif

package wh

// C11 / C12 — automatic memory management.  The compiled template program exists in two variants derived from
// the same compiled WAT: "c11n" counts runtime.HeapAlloc / runtime.HeapFree calls, "c11p" additionally
// overwrites every block with 0xA5 at the moment it is released (before the allocator sees it).
// C11: for every argument value the poisoned run must not trap and must return what the normal run returns
// (a use after release, a double release that corrupts live data, or reliance on unzeroed recycled memory
// changes the result), releases never outnumber allocations, and both runs perform the same number of
// allocations and releases.
// C12: for loops whose iterations leave nothing reachable, the number of live blocks and the heap top after
// n = 6, 12 and 24 iterations do not keep growing (a released block is reused one iteration later, so the first
// two iterations are the warm-up).
// The case tables (vfC11Cases, vfC12Cases) come from the file the driver generates.

func init() {
	vfRegistry["VfH_c11"] = VfH_c11
}

func VfN_c11() int { return len(vfC11Cases) }

func VfH_c11() {
	c := vfC11Cases[vfCase()]
	vfNote("case:" + c.name)
	c.fn()
}

func vfC11Load(name string) int {
	h := vfWasmLoad(name)
	vfWasmCall(h, "_start")
	return h
}

func vfC11Run(fn string, args ...uint64) {
	hn, hp := vfC11Load("c11n"), vfC11Load("c11p")
	a0, f0 := vfWasmGlobal(hn, "vf_allocs"), vfWasmGlobal(hn, "vf_frees")
	rn, tn := vfWasmCall(hn, fn, args...)
	rp, tp := vfWasmCall(hp, fn, args...)
	vfObserve("trapped", vfB2U(tn)|vfB2U(tp)<<1)
	if tn {
		vfNote("normal run traps: outside the property's domain")
		return
	}
	vfAssert(!tp, "c11/no-trap-when-released-memory-is-overwritten")
	if tp {
		return
	}
	same := uint64(1)
	for i := range rn {
		same &= vfB2U(rn[i] == rp[i])
	}
	if len(rn) > 0 {
		vfObserve("result", rn[0])
	}
	vfAssert(same == 1, "c11/result-unchanged-when-released-memory-is-overwritten")
	an, fnn := vfWasmGlobal(hn, "vf_allocs")-a0, vfWasmGlobal(hn, "vf_frees")-f0
	ap, fp := vfWasmGlobal(hp, "vf_allocs")-a0, vfWasmGlobal(hp, "vf_frees")-f0
	vfObserve("allocs", an)
	vfObserve("frees", fnn)
	vfAssert(fnn <= an, "c11/never-more-releases-than-allocations")
	vfAssert(an == ap && fnn == fp, "c11/same-allocation-history-with-and-without-overwriting")
}

