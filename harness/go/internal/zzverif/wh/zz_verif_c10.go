//go:build verif

package wh

// C10 — the heap allocator never hands out overlapping or out-of-heap memory.
//
// The module is malloc.wat expanded and assembled by the current tree (exactly
// as internal/waroot/malloc does) for a concrete configuration per case; the
// E2 interpreter executes wa_malloc / wa_free symbolically. The harness drives a
// bounded history from the initial state: K operations, each a malloc with a
// symbolic size or a free of a symbolically chosen live block, and checks the
// property's clauses after every operation by reading the heap.

func init() { vfRegistry["VfH_heap"] = VfH_heap }

type vfLive struct {
	p, req uint32 // data address, requested size
	size   uint32 // block size recorded when allocated
	mark   byte
}

const (
	vfHeapBase = 4096 // must match the configuration the driver builds
	vfMaxReq   = 200
)

// configurations built by the driver: malloc_cap0, malloc_cap2, malloc_cap100
var vfHeapMods = []string{"malloc_cap2", "malloc_cap0", "malloc_cap100"}

// Cases: module x number of operations (2..4).
func VfN_heap() int { return len(vfHeapMods) * 3 }

func vfRd32(h int, a uint32) uint32 { return uint32(vfWasmMemRead(h, a, 4)) }

// vfInList: is block b a member of the singly linked list starting at head.next (at most n hops, stops at stop)?
func vfInList(h int, head, stop, b uint32, n int) bool {
	p := vfRd32(h, head+4)
	found := false
	for i := 0; i < n && p != stop && p != 0; i++ {
		if p == b {
			found = true
		}
		p = vfRd32(h, p+4)
	}
	return found
}

func vfHeapCheck(h int, live []vfLive, nOps int, label string) {
	base := uint32(vfWasmGlobal(h, "__heap_base"))
	hp := uint32(vfWasmGlobal(h, "__heap_ptr"))
	pages := vfWasmPages(h)
	vfAssert(base == vfHeapBase && hp >= base+48 && uint64(hp) <= uint64(pages)*65536, label+"/heap-pointer-inside-memory")
	// live blocks: inside the heap, aligned, pairwise disjoint, markers and headers intact
	ok := true
	for i, b := range live {
		if b.p%8 != 0 || b.p-8 < base+48 || uint64(b.p)+uint64(b.size) > uint64(hp) || b.size < b.req {
			ok = false
		}
		if vfRd32(h, b.p-8) != b.size {
			ok = false
		}
		if b.req > 0 && (byte(vfWasmMemRead(h, b.p, 1)) != b.mark || byte(vfWasmMemRead(h, b.p+b.req-1, 1)) != b.mark) {
			ok = false
		}
		for j := 0; j < i; j++ {
			o := live[j]
			if !(b.p+b.size <= o.p-8 || o.p+o.size <= b.p-8) {
				ok = false
			}
		}
	}
	vfAssert(ok, label+"/live-blocks-inside-heap-aligned-disjoint-and-untouched")
	// tiling: [base+48, heap_ptr) is a sequence of blocks, each live or on a free list
	a := base + 48
	tiles := true
	for i := 0; i < nOps+1 && a < hp; i++ {
		sz := vfRd32(h, a)
		if sz%8 != 0 || uint64(a)+8+uint64(sz) > uint64(hp) {
			tiles = false
			break
		}
		isLive := false
		for _, b := range live {
			if b.p == a+8 {
				isLive = true
			}
		}
		if !isLive {
			free := vfInList(h, base, 0, a, nOps+1) || vfInList(h, base+8, 0, a, nOps+1) ||
				vfInList(h, base+16, 0, a, nOps+1) || vfInList(h, base+24, 0, a, nOps+1) ||
				vfInList(h, base+32, base+32, a, nOps+1)
			if !free {
				tiles = false
			}
		}
		a += 8 + sz
	}
	if a != hp {
		tiles = false
	}
	vfAssert(tiles, label+"/heap-is-tiled-by-live-and-free-blocks")
}

func VfH_heap() {
	k := vfCase()
	mod, nOps := vfHeapMods[k/3], 2+k%3
	vfNote("case:" + mod + "/ops=" + string(rune('0'+nOps)))
	h := vfWasmLoad(mod)
	_, trapped := vfWasmCall(h, "_start")
	vfAssert(!trapped, "heap/start-ok")
	var live []vfLive
	names := []string{"0", "1", "2", "3"}
	for op := 0; op < nOps; op++ {
		doFree := len(live) > 0 && vfChoice("free"+names[op], 2) == 1
		if doFree {
			v := vfChoice("victim"+names[op], len(live))
			_, tr := vfWasmCall(h, "wa_free", uint64(live[v].p))
			vfAssert(!tr, "heap/free-of-live-block-does-not-trap")
			live = append(live[:v:v], live[v+1:]...)
		} else {
			req := vfU32("size" + names[op])
			vfAssume(req <= vfMaxReq)
			res, tr := vfWasmCall(h, "wa_malloc", uint64(req))
			vfAssert(!tr, "heap/malloc-does-not-trap")
			if tr {
				return
			}
			p := uint32(res[0])
			vfObserve("p"+names[op], uint64(p))
			if p == 0 {
				// with 2 pages available and requests of at most 200 bytes allocation cannot fail
				vfAssert(false, "heap/malloc-fails-only-when-memory-is-exhausted")
				return
			}
			size := vfRd32(h, p-8)
			mark := byte(0xA0 + op)
			if req > 0 {
				vfWasmMemWrite(h, p, 1, uint64(mark))
				vfWasmMemWrite(h, p+req-1, 1, uint64(mark))
			}
			// not already live
			fresh := true
			for _, b := range live {
				if b.p == p {
					fresh = false
				}
			}
			vfAssert(fresh, "heap/malloc-returns-a-block-that-is-not-live")
			live = append(live, vfLive{p: p, req: req, size: size, mark: mark})
		}
		vfHeapCheck(h, live, nOps, "heap")
	}
}
