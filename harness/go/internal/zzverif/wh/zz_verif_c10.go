//go:build verif

package wh

// C10 — the heap allocator never hands out overlapping or out-of-heap memory.
//
// The module is malloc.wat expanded and assembled by the current tree (exactly
// as internal/waroot/malloc does) for a concrete configuration per case; the
// E2 interpreter executes wa_malloc / wa_free symbolically. The harness drives a
// bounded history from the initial state: K operations, each a malloc with a
// symbolic size (class enumerated, offset in the class symbolic) or a free of a symbolically chosen live block, and checks the
// property's clauses after every operation by reading the heap.

func init() { vfRegistry["VfH_heap"] = VfH_heap }

type vfLive struct {
	p, req uint32 // data address, requested size
	size   uint32 // block size recorded when allocated
	mark   byte
}


// request sizes: 0, then classes [base, base+7]: 1..8, 9..16, 17..24 (l24), 25..32 (l32), 33..40 and 41..48 (l48), 49..56,
// 73..80 (l80), 81..88 (smallest variable block), 121..128, 193..200, and two huge classes 60001.. and 70001..
// (two of them do not fit into the 2-page modules: the allocation must fail cleanly and leave the heap intact)
var vfClassBase = []uint32{0, 1, 9, 17, 25, 33, 41, 49, 73, 81, 121, 193, 60001, 70001}

// configurations built by the driver: malloc_cap0, malloc_cap1, malloc_cap2, malloc_cap100
var vfHeapMods = []string{"malloc_cap2", "malloc_cap0", "malloc_cap100", "rtheap", "malloc_cap1"}

// rtheap is the copy of the allocator inside a compiled Wa program (waroot/src/runtime/heap_malloc.wat.ws):
// entry points runtime.malloc / runtime.free, exported by the driver as vf:runtime.malloc / vf:runtime.free.

// Cases: number of operations (2..6, major) x module x class of the first request
// (the first operation is always a malloc; fixing its class only splits the work).
const vfOpsMin, vfOpsMax = 2, 6

func VfN_heap() int { return (vfOpsMax - vfOpsMin + 1) * len(vfHeapMods) * len(vfClassBase) }

func vfRd32(h int, a uint32) uint32 { return uint32(vfWasmMemRead(h, a, 4)) }

// vfInList: is block b a member of the singly linked list starting at head.next (at most n hops, stops at stop)?
func vfInList(h int, head, stop, b uint32, n int) bool {
	p := vfRd32(h, head+4)
	found := false
	for i := 0; i < n && p != stop && p != 0; i++ {
		if p == b {
			found = true
		}
		p = vfRd32(h, p+4)
	}
	return found
}

func vfHeapCheck(h int, live []vfLive, nOps int, label string) {
	base := uint32(vfWasmGlobal(h, "__heap_base"))
	hp := uint32(vfWasmGlobal(h, "__heap_ptr"))
	pages := vfWasmPages(h)
	vfAssert(base%8 == 0 && base >= 1024 && hp >= base+48 && uint64(hp) <= uint64(pages)*65536, label+"/heap-pointer-inside-memory")
	// live blocks: inside the heap, aligned, pairwise disjoint, markers and headers intact
	ok := true
	for i, b := range live {
		if b.p%8 != 0 || b.p-8 < base+48 || uint64(b.p)+uint64(b.size) > uint64(hp) {
			ok = false
		}
		if vfRd32(h, b.p-8) != b.size {
			ok = false
		}
		if b.size > 0 && (byte(vfWasmMemRead(h, b.p, 1)) != b.mark || byte(vfWasmMemRead(h, b.p+b.size-1, 1)) != b.mark) {
			ok = false
		}
		for j := 0; j < i; j++ {
			o := live[j]
			if !(b.p+b.size <= o.p-8 || o.p+o.size <= b.p-8) {
				ok = false
			}
		}
	}
	vfAssert(ok, label+"/live-blocks-inside-heap-aligned-disjoint-and-untouched")
	// tiling: [base+48, heap_ptr) is a sequence of blocks, each live or on a free list
	a := base + 48
	tiles := true
	for i := 0; i < nOps+1 && a < hp; i++ {
		sz := vfRd32(h, a)
		if sz%8 != 0 || uint64(a)+8+uint64(sz) > uint64(hp) {
			tiles = false
			break
		}
		isLive := false
		for _, b := range live {
			if b.p == a+8 {
				isLive = true
			}
		}
		if !isLive {
			free := vfInList(h, base, 0, a, nOps+1) || vfInList(h, base+8, 0, a, nOps+1) ||
				vfInList(h, base+16, 0, a, nOps+1) || vfInList(h, base+24, 0, a, nOps+1) ||
				vfInList(h, base+32, base+32, a, nOps+1)
			if !free {
				tiles = false
			}
		}
		a += 8 + sz
	}
	if a != hp {
		tiles = false
	}
	vfAssert(tiles, label+"/heap-is-tiled-by-live-and-free-blocks")
}

func VfH_heap() {
	k := vfCase()
	nc := len(vfClassBase)
	nOps, mod, first := vfOpsMin+k/(len(vfHeapMods)*nc), vfHeapMods[k/nc%len(vfHeapMods)], k%nc
	vfNote("case:" + mod + "/ops=" + string(rune('0'+nOps)) + "/first=" + string(rune('a'+first)))
	h := vfWasmLoad(mod)
	fnMalloc, fnFree := "wa_malloc", "wa_free"
	if mod == "rtheap" {
		fnMalloc, fnFree = "vf:runtime.malloc", "vf:runtime.free"
	}
	_, trapped := vfWasmCall(h, "_start")
	vfAssert(!trapped, "heap/start-ok")
	if mod == "rtheap" {
		// the runtime initialises its heap lazily: one allocation and release brings it to a defined state
		r0, _ := vfWasmCall(h, fnMalloc, 8)
		vfWasmCall(h, fnFree, r0[0])
	}
	var live []vfLive
	names := []string{"0", "1", "2", "3", "4", "5"}
	for op := 0; op < nOps; op++ {
		doFree := len(live) > 0 && vfChoice("free"+names[op], 2) == 1
		if doFree {
			v := vfChoice("victim"+names[op], len(live))
			_, tr := vfWasmCall(h, fnFree, uint64(live[v].p))
			vfAssert(!tr, "heap/free-of-live-block-does-not-trap")
			live = append(live[:v:v], live[v+1:]...)
		} else {
			// size = class base + d with d a symbolic 3-bit value: the class (which decides the
			// aligned size and therefore every address) is enumerated, the position inside the
			// class is decided by the solver; class 0 is the request of exactly 0 bytes
			cls := first
			if op > 0 {
				cls = vfChoice("class"+names[op], len(vfClassBase))
			}
			req := vfClassBase[cls]
			if cls > 0 {
				req += uint32(vfU8("d"+names[op]) & 7)
			}
			hpBefore := vfWasmGlobal(h, "__heap_ptr")
			res, tr := vfWasmCall(h, fnMalloc, uint64(req))
			vfAssert(!tr, "heap/malloc-does-not-trap")
			if tr {
				return
			}
			p := uint32(res[0])
			vfObserve("p"+names[op], uint64(p))
			if p == 0 {
				// failure is legitimate only when the block cannot be placed below the module's memory maximum
				// (2 pages for the malloc_* modules; the compiled program's heap is never exhausted within the bound);
				// the heap must be left intact, which the clauses below check
				fits := hpBefore+8+uint64((req+7)&^7) <= 2*65536
				vfAssert(mod != "rtheap" && !fits, "heap/malloc-fails-only-when-memory-is-exhausted")
				vfHeapCheck(h, live, nOps, "heap")
				continue
			}
			size := vfRd32(h, p-8)
			mark := byte(0xA0 + op)
			if size > 0 {
				vfWasmMemWrite(h, p, 1, uint64(mark))
				vfWasmMemWrite(h, p+size-1, 1, uint64(mark))
			}
			// not already live
			fresh := true
			for _, b := range live {
				if b.p == p {
					fresh = false
				}
			}
			vfAssert(fresh, "heap/malloc-returns-a-block-that-is-not-live")
			vfAssert(size >= req, "heap/block-at-least-as-large-as-requested")
			live = append(live, vfLive{p: p, req: req, size: size, mark: mark})
		}
		vfHeapCheck(h, live, nOps, "heap")
	}
}
