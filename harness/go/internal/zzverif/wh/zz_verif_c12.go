//go:build verif

package wh

// C12 — see zz_verif_c11.go for the instrumentation shared with C11.

func init() { vfRegistry["VfH_c12"] = VfH_c12 }

func VfN_c12() int { return len(vfC12Cases) }

func VfH_c12() {
	c := vfC12Cases[vfCase()]
	vfNote("case:" + c.name)
	c.fn()
}

func vfC12Run(fn string, x uint64) {
	h1, h4 := vfC11Load("c11n"), vfC11Load("c11n")
	a0, f0 := vfWasmGlobal(h1, "vf_allocs"), vfWasmGlobal(h1, "vf_frees")
	_, t1 := vfWasmCall(h1, fn, 6, x)
	_, t4 := vfWasmCall(h4, fn, 12, x)
	vfAssert(!t1 && !t4, "c12/loop-does-not-trap")
	if t1 || t4 {
		return
	}
	live1 := (vfWasmGlobal(h1, "vf_allocs") - a0) - (vfWasmGlobal(h1, "vf_frees") - f0)
	live4 := (vfWasmGlobal(h4, "vf_allocs") - a0) - (vfWasmGlobal(h4, "vf_frees") - f0)
	vfObserve("live1", live1)
	vfObserve("live4", live4)
	vfObserve("allocs4", vfWasmGlobal(h4, "vf_allocs")-a0)
	vfAssert(live1 == live4, "c12/live-blocks-do-not-grow-with-iterations")
	top1, top4 := vfWasmGlobal(h1, "vf_heap_ptr"), vfWasmGlobal(h4, "vf_heap_ptr")
	vfObserve("top1", top1)
	vfAssert(top1 == top4, "c12/heap-top-does-not-grow-with-iterations")
}
