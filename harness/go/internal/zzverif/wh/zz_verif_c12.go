//go:build verif

package wh

// C12 — see zz_verif_c11.go for the instrumentation shared with C11.

func init() { vfRegistry["VfH_c12"] = VfH_c12 }

func VfN_c12() int { return len(vfC12Cases) }

func VfH_c12() {
	c := vfC12Cases[vfCase()]
	vfNote("case:" + c.name)
	c.fn()
}

func vfC12Run(fn string, x uint64) {
	// three checkpoints in the steady state: 6, 12 and 24 iterations, each on a fresh instance
	counts := []uint64{6, 12, 24}
	var live, top [3]uint64
	for k, n := range counts {
		h := vfC11Load("c11n")
		a0, f0 := vfWasmGlobal(h, "vf_allocs"), vfWasmGlobal(h, "vf_frees")
		_, trapped := vfWasmCall(h, fn, n, x)
		vfAssert(!trapped, "c12/loop-does-not-trap")
		if trapped {
			return
		}
		live[k] = (vfWasmGlobal(h, "vf_allocs") - a0) - (vfWasmGlobal(h, "vf_frees") - f0)
		top[k] = vfWasmGlobal(h, "vf_heap_ptr")
	}
	vfObserve("live6", live[0])
	vfObserve("live24", live[2])
	vfObserve("top6", top[0])
	// growth with N: more at 12 than at 6 and again more at 24 than at 12 (a one-off shift of the free lists,
	// e.g. in the iteration where a key equals the loop counter, is not growth)
	vfAssert(vfB2U(live[0] < live[1])&vfB2U(live[1] < live[2]) == 0, "c12/live-blocks-do-not-grow-with-iterations")
	vfAssert(vfB2U(top[0] < top[1])&vfB2U(top[1] < top[2]) == 0, "c12/heap-top-does-not-grow-with-iterations")
}
