//go:build verif

package wh

// Native side of the vfWasm* harness API: the module runs on the vendored
// wazero engine (the runtime `wa run` uses), so a replayed counterexample goes
// through the real engine. Under the symbolic executor these functions are
// intercepted by name and the module is executed by the E2 interpreter.

import (
	"context"
	"os"
	"path/filepath"
	"reflect"
	"sort"

	"wa-lang.org/wa/internal/3rdparty/wazero"
	"wa-lang.org/wa/internal/3rdparty/wazero/api"
)

type vfHostCall struct {
	name string
	args []uint64
}

type vfWasmInstT struct {
	rt       wazero.Runtime
	compiled wazero.CompiledModule
	mod      api.Module
	calls    []vfHostCall
	exited   bool
	exitCode uint32
}

type vfWasmExit struct{}

var vfWasmInsts []*vfWasmInstT

func init() { vfResetHook = vfWasmReset }

// (module (global (export "hg") i32 (i32.const 0)))
var vfGenvWasm = []byte{0, 'a', 's', 'm', 1, 0, 0, 0, 6, 6, 1, 0x7f, 0, 0x41, 0, 0x0b, 7, 6, 1, 2, 'h', 'g', 3, 0}

func vfWasmReset() {
	for _, in := range vfWasmInsts {
		if in.rt != nil {
			in.rt.Close(context.Background())
		}
	}
	vfWasmInsts = nil
}

func vfWasmLoad(name string) int {
	ctx := context.Background()
	b, err := os.ReadFile(filepath.Join(os.Getenv("VF_WASM_DIR"), name+".wasm"))
	if err != nil {
		panic(err)
	}
	in := &vfWasmInstT{}
	in.rt = wazero.NewRuntimeWithConfig(ctx, wazero.NewRuntimeConfigInterpreter())
	compiled, err := in.rt.CompileModule(ctx, b)
	if err != nil {
		panic(err)
	}
	in.compiled = compiled
	builders := map[string]wazero.HostModuleBuilder{}
	var order []string
	for _, def := range compiled.ImportedFunctions() {
		modName, fnName, _ := def.Import()
		hb, ok := builders[modName]
		if !ok {
			hb = in.rt.NewHostModuleBuilder(modName)
			order = append(order, modName)
		}
		full := modName + "." + fnName
		nparams := len(def.ParamTypes())
		nres := len(def.ResultTypes())
		isExit := fnName == "proc_exit"
		hb = hb.NewFunctionBuilder().WithGoModuleFunction(api.GoModuleFunc(func(ctx context.Context, mod api.Module, stack []uint64) {
			in.calls = append(in.calls, vfHostCall{full, append([]uint64{}, stack[:nparams]...)})
			if isExit {
				in.exited, in.exitCode = true, uint32(stack[0])
				panic(vfWasmExit{})
			}
			for i := 0; i < nres; i++ {
				stack[i] = 0
			}
		}), def.ParamTypes(), def.ResultTypes()).Export(fnName)
		builders[modName] = hb
	}
	// a module may import the immutable global "genv"."hg" (wazero host modules cannot export globals)
	if genv, err := in.rt.CompileModule(ctx, vfGenvWasm); err == nil {
		in.rt.InstantiateModule(ctx, genv, wazero.NewModuleConfig().WithName("genv"))
	}
	for _, n := range order {
		if _, err := builders[n].Instantiate(ctx, in.rt); err != nil {
			panic(err)
		}
	}
	in.mod, err = in.rt.InstantiateModule(ctx, compiled, wazero.NewModuleConfig().WithName(name).WithStartFunctions())
	if err != nil && in.mod == nil {
		panic(err)
	}
	vfWasmInsts = append(vfWasmInsts, in)
	return len(vfWasmInsts) - 1
}

func vfWasmCall(h int, fn string, args ...uint64) (results []uint64, trapped bool) {
	in := vfWasmInsts[h]
	f := in.mod.ExportedFunction(fn)
	if f == nil {
		panic("wasm function not exported: " + fn)
	}
	// parameters narrower than 64 bits carry their low bits only
	pts := f.Definition().ParamTypes()
	a := make([]uint64, len(args))
	for i, v := range args {
		if i < len(pts) && (pts[i] == api.ValueTypeI32 || pts[i] == api.ValueTypeF32) {
			v &= 0xffffffff
		}
		a[i] = v
	}
	res, err := f.Call(context.Background(), a...)
	if err != nil {
		return []uint64{}, true
	}
	rts := f.Definition().ResultTypes()
	for i := range res {
		if rts[i] == api.ValueTypeI32 || rts[i] == api.ValueTypeF32 {
			res[i] &= 0xffffffff
		}
	}
	return res, false
}

func vfWasmMemRead(h int, addr uint32, n int) uint64 {
	b, ok := vfWasmInsts[h].mod.Memory().Read(context.Background(), addr, uint32(n))
	if !ok {
		panic("wasm memory read out of range")
	}
	var v uint64
	for i := n - 1; i >= 0; i-- {
		v = v<<8 | uint64(b[i])
	}
	return v
}

func vfWasmMemWrite(h int, addr uint32, n int, v uint64) {
	b := make([]byte, n)
	for i := 0; i < n; i++ {
		b[i] = byte(v >> (8 * i))
	}
	if !vfWasmInsts[h].mod.Memory().Write(context.Background(), addr, b) {
		panic("wasm memory write out of range")
	}
}

func vfWasmGlobal(h int, name string) uint64 {
	g := vfWasmInsts[h].mod.ExportedGlobal(name)
	if g == nil {
		panic("wasm global not exported: " + name)
	}
	v := g.Get(context.Background())
	if g.Type() == api.ValueTypeI32 || g.Type() == api.ValueTypeF32 {
		v &= 0xffffffff
	}
	return v
}

func vfWasmSetGlobal(h int, name string, v uint64) {
	g := vfWasmInsts[h].mod.ExportedGlobal(name)
	mg, ok := g.(api.MutableGlobal)
	if !ok {
		panic("wasm global not mutable: " + name)
	}
	mg.Set(context.Background(), v)
}

func vfWasmPages(h int) uint32 {
	if m := vfWasmInsts[h].mod.Memory(); m == nil || reflect.ValueOf(m).IsNil() {
		return 0
	}
	return vfWasmInsts[h].mod.Memory().Size(context.Background()) / 65536
}

func vfWasmHostCalls(h int) int { return len(vfWasmInsts[h].calls) }

func vfWasmHostCall(h, i int) (name string, a0, a1 uint64) {
	c := vfWasmInsts[h].calls[i]
	if len(c.args) > 0 {
		a0 = c.args[0]
	}
	if len(c.args) > 1 {
		a1 = c.args[1]
	}
	return c.name, a0, a1
}

func vfWasmExitCode(h int) (uint32, bool) { return vfWasmInsts[h].exitCode, vfWasmInsts[h].exited }

// vfWasmExports lists the exported functions as "name:params:results" (i I f F per value type), sorted by name.
func vfWasmExports(h int) []string {
	tyc := map[api.ValueType]byte{api.ValueTypeI32: 'i', api.ValueTypeI64: 'I', api.ValueTypeF32: 'f', api.ValueTypeF64: 'F'}
	var out []string
	for name, def := range vfWasmInsts[h].compiled.ExportedFunctions() {
		sig := name + ":"
		for _, t := range def.ParamTypes() {
			sig += string(tyc[t])
		}
		sig += ":"
		for _, t := range def.ResultTypes() {
			sig += string(tyc[t])
		}
		if _, _, imported := def.Import(); imported {
			sig += ":imported"
		}
		out = append(out, sig)
	}
	sort.Strings(out)
	return out
}
