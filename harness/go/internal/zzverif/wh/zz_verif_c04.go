//go:build verif

package wh

import "math"

// C04 (a) — wat2wasm emits, for every numeric instruction written in the text,
// a binary whose function computes the WebAssembly-specified result for every
// operand value. The module c04ops.wat (generated from vfOps by the driver: one
// exported function per instruction, operands are the parameters) is assembled
// by the tree's wat2wasm; its binary is executed by the E2 interpreter
// (symbolically) and by wazero (replay). The reference below is written from
// the WebAssembly 1.0 specification on Go's integer/IEEE arithmetic.

func init() { vfRegistry["VfH_ops"] = VfH_ops }

type vfOp struct{ name, params, results string } // i=i32 I=i64 f=f32 F=f64

var vfOps = []vfOp{
	{"i32.eqz", "i", "i"}, {"i32.eq", "ii", "i"}, {"i32.ne", "ii", "i"}, {"i32.lt_s", "ii", "i"}, {"i32.lt_u", "ii", "i"},
	{"i32.gt_s", "ii", "i"}, {"i32.gt_u", "ii", "i"}, {"i32.le_s", "ii", "i"}, {"i32.le_u", "ii", "i"}, {"i32.ge_s", "ii", "i"}, {"i32.ge_u", "ii", "i"},
	{"i64.eqz", "I", "i"}, {"i64.eq", "II", "i"}, {"i64.ne", "II", "i"}, {"i64.lt_s", "II", "i"}, {"i64.lt_u", "II", "i"},
	{"i64.gt_s", "II", "i"}, {"i64.gt_u", "II", "i"}, {"i64.le_s", "II", "i"}, {"i64.le_u", "II", "i"}, {"i64.ge_s", "II", "i"}, {"i64.ge_u", "II", "i"},
	{"f32.eq", "ff", "i"}, {"f32.ne", "ff", "i"}, {"f32.lt", "ff", "i"}, {"f32.gt", "ff", "i"}, {"f32.le", "ff", "i"}, {"f32.ge", "ff", "i"},
	{"f64.eq", "FF", "i"}, {"f64.ne", "FF", "i"}, {"f64.lt", "FF", "i"}, {"f64.gt", "FF", "i"}, {"f64.le", "FF", "i"}, {"f64.ge", "FF", "i"},
	{"i32.clz", "i", "i"}, {"i32.ctz", "i", "i"}, {"i32.popcnt", "i", "i"},
	{"i32.add", "ii", "i"}, {"i32.sub", "ii", "i"}, {"i32.mul", "ii", "i"}, {"i32.div_s", "ii", "i"}, {"i32.div_u", "ii", "i"},
	{"i32.rem_s", "ii", "i"}, {"i32.rem_u", "ii", "i"}, {"i32.and", "ii", "i"}, {"i32.or", "ii", "i"}, {"i32.xor", "ii", "i"},
	{"i32.shl", "ii", "i"}, {"i32.shr_s", "ii", "i"}, {"i32.shr_u", "ii", "i"}, {"i32.rotl", "ii", "i"}, {"i32.rotr", "ii", "i"},
	{"i64.clz", "I", "I"}, {"i64.ctz", "I", "I"}, {"i64.popcnt", "I", "I"},
	{"i64.add", "II", "I"}, {"i64.sub", "II", "I"}, {"i64.mul", "II", "I"}, {"i64.div_s", "II", "I"}, {"i64.div_u", "II", "I"},
	{"i64.rem_s", "II", "I"}, {"i64.rem_u", "II", "I"}, {"i64.and", "II", "I"}, {"i64.or", "II", "I"}, {"i64.xor", "II", "I"},
	{"i64.shl", "II", "I"}, {"i64.shr_s", "II", "I"}, {"i64.shr_u", "II", "I"}, {"i64.rotl", "II", "I"}, {"i64.rotr", "II", "I"},
	{"f32.abs", "f", "f"}, {"f32.neg", "f", "f"}, {"f32.ceil", "f", "f"}, {"f32.floor", "f", "f"}, {"f32.trunc", "f", "f"}, {"f32.nearest", "f", "f"}, {"f32.sqrt", "f", "f"},
	{"f32.add", "ff", "f"}, {"f32.sub", "ff", "f"}, {"f32.mul", "ff", "f"}, {"f32.div", "ff", "f"}, {"f32.min", "ff", "f"}, {"f32.max", "ff", "f"}, {"f32.copysign", "ff", "f"},
	{"f64.abs", "F", "F"}, {"f64.neg", "F", "F"}, {"f64.ceil", "F", "F"}, {"f64.floor", "F", "F"}, {"f64.trunc", "F", "F"}, {"f64.nearest", "F", "F"}, {"f64.sqrt", "F", "F"},
	{"f64.add", "FF", "F"}, {"f64.sub", "FF", "F"}, {"f64.mul", "FF", "F"}, {"f64.div", "FF", "F"}, {"f64.min", "FF", "F"}, {"f64.max", "FF", "F"}, {"f64.copysign", "FF", "F"},
	{"i32.wrap_i64", "I", "i"}, {"i32.trunc_f32_s", "f", "i"}, {"i32.trunc_f32_u", "f", "i"}, {"i32.trunc_f64_s", "F", "i"}, {"i32.trunc_f64_u", "F", "i"},
	{"i64.extend_i32_s", "i", "I"}, {"i64.extend_i32_u", "i", "I"}, {"i64.trunc_f32_s", "f", "I"}, {"i64.trunc_f32_u", "f", "I"}, {"i64.trunc_f64_s", "F", "I"}, {"i64.trunc_f64_u", "F", "I"},
	{"f32.convert_i32_s", "i", "f"}, {"f32.convert_i32_u", "i", "f"}, {"f32.convert_i64_s", "I", "f"}, {"f32.convert_i64_u", "I", "f"}, {"f32.demote_f64", "F", "f"},
	{"f64.convert_i32_s", "i", "F"}, {"f64.convert_i32_u", "i", "F"}, {"f64.convert_i64_s", "I", "F"}, {"f64.convert_i64_u", "I", "F"}, {"f64.promote_f32", "f", "F"},
	{"i32.reinterpret_f32", "f", "i"}, {"i64.reinterpret_f64", "F", "I"}, {"f32.reinterpret_i32", "i", "f"}, {"f64.reinterpret_i64", "I", "F"},
}

func VfN_ops() int { return len(vfOps) }

func vfMangle(s string) string {
	b := []byte("f_" + s)
	for i := range b {
		if b[i] == '.' {
			b[i] = '_'
		}
	}
	return string(b)
}

func vfB(b bool) uint64 { return vfB2U(b) }

// wasm min/max on raw bits (NaN -> canonical NaN, -0 < +0)
func vfMinMax64(a, b float64, max bool) float64 {
	switch {
	case a != a || b != b:
		return math.NaN()
	case a < b:
		if max {
			return b
		}
		return a
	case b < a:
		if max {
			return a
		}
		return b
	}
	// equal (or both zero of different sign)
	sa := math.Float64bits(a)>>63 == 1
	if max {
		if sa {
			return b
		}
		return a
	}
	if sa {
		return a
	}
	return b
}

// vfRefOp: (result bits, traps) per the WebAssembly 1.0 numeric semantics.
func vfRefOp(name string, x, y uint64) (uint64, bool) {
	a32, b32 := uint32(x), uint32(y)
	s32, t32 := int32(a32), int32(b32)
	s64, t64 := int64(x), int64(y)
	fa, fb := math.Float32frombits(a32), math.Float32frombits(b32)
	da, db := math.Float64frombits(x), math.Float64frombits(y)
	f := func(v float32) (uint64, bool) { return uint64(math.Float32bits(v)), false }
	d := func(v float64) (uint64, bool) { return math.Float64bits(v), false }
	i := func(v uint32) (uint64, bool) { return uint64(v), false }
	switch name {
	case "i32.eqz":
		return vfB(a32 == 0), false
	case "i32.eq":
		return vfB(a32 == b32), false
	case "i32.ne":
		return vfB(a32 != b32), false
	case "i32.lt_s":
		return vfB(s32 < t32), false
	case "i32.lt_u":
		return vfB(a32 < b32), false
	case "i32.gt_s":
		return vfB(s32 > t32), false
	case "i32.gt_u":
		return vfB(a32 > b32), false
	case "i32.le_s":
		return vfB(s32 <= t32), false
	case "i32.le_u":
		return vfB(a32 <= b32), false
	case "i32.ge_s":
		return vfB(s32 >= t32), false
	case "i32.ge_u":
		return vfB(a32 >= b32), false
	case "i64.eqz":
		return vfB(x == 0), false
	case "i64.eq":
		return vfB(x == y), false
	case "i64.ne":
		return vfB(x != y), false
	case "i64.lt_s":
		return vfB(s64 < t64), false
	case "i64.lt_u":
		return vfB(x < y), false
	case "i64.gt_s":
		return vfB(s64 > t64), false
	case "i64.gt_u":
		return vfB(x > y), false
	case "i64.le_s":
		return vfB(s64 <= t64), false
	case "i64.le_u":
		return vfB(x <= y), false
	case "i64.ge_s":
		return vfB(s64 >= t64), false
	case "i64.ge_u":
		return vfB(x >= y), false
	case "f32.eq":
		return vfB(fa == fb), false
	case "f32.ne":
		return vfB(fa != fb), false
	case "f32.lt":
		return vfB(fa < fb), false
	case "f32.gt":
		return vfB(fa > fb), false
	case "f32.le":
		return vfB(fa <= fb), false
	case "f32.ge":
		return vfB(fa >= fb), false
	case "f64.eq":
		return vfB(da == db), false
	case "f64.ne":
		return vfB(da != db), false
	case "f64.lt":
		return vfB(da < db), false
	case "f64.gt":
		return vfB(da > db), false
	case "f64.le":
		return vfB(da <= db), false
	case "f64.ge":
		return vfB(da >= db), false
	case "i32.clz":
		n := uint32(0)
		for k := 31; k >= 0 && a32>>uint(k)&1 == 0; k-- {
			n++
		}
		return i(n)
	case "i32.ctz":
		n := uint32(0)
		for k := 0; k < 32 && a32>>uint(k)&1 == 0; k++ {
			n++
		}
		return i(n)
	case "i32.popcnt":
		n := uint32(0)
		for k := 0; k < 32; k++ {
			n += a32 >> uint(k) & 1
		}
		return i(n)
	case "i32.add":
		return i(a32 + b32)
	case "i32.sub":
		return i(a32 - b32)
	case "i32.mul":
		return i(a32 * b32)
	case "i32.div_s":
		if b32 == 0 || (s32 == math.MinInt32 && t32 == -1) {
			return 0, true
		}
		return i(uint32(s32 / t32))
	case "i32.div_u":
		if b32 == 0 {
			return 0, true
		}
		return i(a32 / b32)
	case "i32.rem_s":
		if b32 == 0 {
			return 0, true
		}
		if t32 == -1 {
			return 0, false
		}
		return i(uint32(s32 % t32))
	case "i32.rem_u":
		if b32 == 0 {
			return 0, true
		}
		return i(a32 % b32)
	case "i32.and":
		return i(a32 & b32)
	case "i32.or":
		return i(a32 | b32)
	case "i32.xor":
		return i(a32 ^ b32)
	case "i32.shl":
		return i(a32 << (b32 & 31))
	case "i32.shr_s":
		return i(uint32(s32 >> (b32 & 31)))
	case "i32.shr_u":
		return i(a32 >> (b32 & 31))
	case "i32.rotl":
		return i(a32<<(b32&31) | a32>>((32-b32&31)&31))
	case "i32.rotr":
		return i(a32>>(b32&31) | a32<<((32-b32&31)&31))
	case "i64.clz":
		n := uint64(0)
		for k := 63; k >= 0 && x>>uint(k)&1 == 0; k-- {
			n++
		}
		return n, false
	case "i64.ctz":
		n := uint64(0)
		for k := 0; k < 64 && x>>uint(k)&1 == 0; k++ {
			n++
		}
		return n, false
	case "i64.popcnt":
		n := uint64(0)
		for k := 0; k < 64; k++ {
			n += x >> uint(k) & 1
		}
		return n, false
	case "i64.add":
		return x + y, false
	case "i64.sub":
		return x - y, false
	case "i64.mul":
		return x * y, false
	case "i64.div_s":
		if y == 0 || (s64 == math.MinInt64 && t64 == -1) {
			return 0, true
		}
		return uint64(s64 / t64), false
	case "i64.div_u":
		if y == 0 {
			return 0, true
		}
		return x / y, false
	case "i64.rem_s":
		if y == 0 {
			return 0, true
		}
		if t64 == -1 {
			return 0, false
		}
		return uint64(s64 % t64), false
	case "i64.rem_u":
		if y == 0 {
			return 0, true
		}
		return x % y, false
	case "i64.and":
		return x & y, false
	case "i64.or":
		return x | y, false
	case "i64.xor":
		return x ^ y, false
	case "i64.shl":
		return x << (y & 63), false
	case "i64.shr_s":
		return uint64(s64 >> (y & 63)), false
	case "i64.shr_u":
		return x >> (y & 63), false
	case "i64.rotl":
		return x<<(y&63) | x>>((64-y&63)&63), false
	case "i64.rotr":
		return x>>(y&63) | x<<((64-y&63)&63), false
	case "f32.abs":
		return uint64(a32 &^ (1 << 31)), false
	case "f32.neg":
		return uint64(a32 ^ (1 << 31)), false
	case "f32.ceil":
		return f(float32(math.Ceil(float64(fa))))
	case "f32.floor":
		return f(float32(math.Floor(float64(fa))))
	case "f32.trunc":
		return f(float32(math.Trunc(float64(fa))))
	case "f32.nearest":
		return f(float32(math.RoundToEven(float64(fa))))
	case "f32.sqrt":
		return f(float32(math.Sqrt(float64(fa))))
	case "f32.add":
		return f(fa + fb)
	case "f32.sub":
		return f(fa - fb)
	case "f32.mul":
		return f(fa * fb)
	case "f32.div":
		return f(fa / fb)
	case "f32.min":
		return f(float32(vfMinMax64(float64(fa), float64(fb), false)))
	case "f32.max":
		return f(float32(vfMinMax64(float64(fa), float64(fb), true)))
	case "f32.copysign":
		return uint64(a32&^(1<<31) | b32&(1<<31)), false
	case "f64.abs":
		return x &^ (1 << 63), false
	case "f64.neg":
		return x ^ (1 << 63), false
	case "f64.ceil":
		return d(math.Ceil(da))
	case "f64.floor":
		return d(math.Floor(da))
	case "f64.trunc":
		return d(math.Trunc(da))
	case "f64.nearest":
		return d(math.RoundToEven(da))
	case "f64.sqrt":
		return d(math.Sqrt(da))
	case "f64.add":
		return d(da + db)
	case "f64.sub":
		return d(da - db)
	case "f64.mul":
		return d(da * db)
	case "f64.div":
		return d(da / db)
	case "f64.min":
		return d(vfMinMax64(da, db, false))
	case "f64.max":
		return d(vfMinMax64(da, db, true))
	case "f64.copysign":
		return x&^(1<<63) | y&(1<<63), false
	case "i32.wrap_i64":
		return i(uint32(x))
	case "i32.trunc_f32_s":
		v := float64(fa)
		if v != v || !(v > -2147483649.0 && v < 2147483648.0) {
			return 0, true
		}
		return i(uint32(int32(v)))
	case "i32.trunc_f32_u":
		v := float64(fa)
		if v != v || !(v > -1.0 && v < 4294967296.0) {
			return 0, true
		}
		return i(uint32(int64(v)))
	case "i32.trunc_f64_s":
		if da != da || !(da > -2147483649.0 && da < 2147483648.0) {
			return 0, true
		}
		return i(uint32(int32(da)))
	case "i32.trunc_f64_u":
		if da != da || !(da > -1.0 && da < 4294967296.0) {
			return 0, true
		}
		return i(uint32(int64(da)))
	case "i64.extend_i32_s":
		return uint64(int64(s32)), false
	case "i64.extend_i32_u":
		return uint64(a32), false
	case "i64.trunc_f32_s":
		v := float64(fa)
		if v != v || !(v >= -9223372036854775808.0 && v < 9223372036854775808.0) {
			return 0, true
		}
		return uint64(int64(v)), false
	case "i64.trunc_f32_u":
		v := float64(fa)
		if v != v || !(v > -1.0 && v < 18446744073709551616.0) {
			return 0, true
		}
		return vfF2U64(v), false
	case "i64.trunc_f64_s":
		if da != da || !(da >= -9223372036854775808.0 && da < 9223372036854775808.0) {
			return 0, true
		}
		return uint64(int64(da)), false
	case "i64.trunc_f64_u":
		if da != da || !(da > -1.0 && da < 18446744073709551616.0) {
			return 0, true
		}
		return vfF2U64(da), false
	case "f32.convert_i32_s":
		return f(float32(s32))
	case "f32.convert_i32_u":
		return f(float32(a32))
	case "f32.convert_i64_s":
		return f(float32(s64))
	case "f32.convert_i64_u":
		return f(float32(x))
	case "f32.demote_f64":
		return f(float32(da))
	case "f64.convert_i32_s":
		return d(float64(s32))
	case "f64.convert_i32_u":
		return d(float64(a32))
	case "f64.convert_i64_s":
		return d(float64(s64))
	case "f64.convert_i64_u":
		return d(float64(x))
	case "f64.promote_f32":
		return d(float64(fa))
	case "i32.reinterpret_f32", "f32.reinterpret_i32":
		return uint64(a32), false
	case "i64.reinterpret_f64", "f64.reinterpret_i64":
		return x, false
	}
	panic("no reference for " + name)
}

// float64 in (-1, 2^64) -> uint64, truncating (Go's conversion is only defined below 2^63)
func vfF2U64(v float64) uint64 {
	if v < 9223372036854775808.0 {
		if v < 0 {
			return 0
		}
		return uint64(int64(v))
	}
	return uint64(int64(v-9223372036854775808.0)) + 1<<63
}

// vfNaN: branch-free NaN test on a bit pattern
func vfNaN(t byte, v uint64) bool {
	if t == 'f' {
		return vfB2U(v&0x7f800000 == 0x7f800000)&vfB2U(v&0x007fffff != 0) == 1
	}
	return vfB2U(v&0x7ff0000000000000 == 0x7ff0000000000000)&vfB2U(v&0x000fffffffffffff != 0) == 1
}

func vfIsNaNBits(t byte, v uint64) bool {
	if t == 'f' {
		return v&0x7f800000 == 0x7f800000 && v&0x007fffff != 0
	}
	return v&0x7ff0000000000000 == 0x7ff0000000000000 && v&0x000fffffffffffff != 0
}

func VfH_ops() {
	op := vfOps[vfCase()]
	vfNote("case:" + op.name)
	h := vfWasmLoad("c04ops")
	var x, y uint64
	arg := func(name string, t byte) uint64 {
		if t == 'i' || t == 'f' {
			return uint64(vfU32(name + "32"))
		}
		return vfU64(name + "64")
	}
	args := []uint64{}
	x = arg("x", op.params[0])
	args = append(args, x)
	if len(op.params) > 1 {
		y = arg("y", op.params[1])
		args = append(args, y)
	}
	res, trapped := vfWasmCall(h, vfMangle(op.name), args...)
	want, wantTrap := vfRefOp(op.name, x, y)
	vfObserve("trapped", vfB2U(trapped))
	vfAssert(trapped == wantTrap, "ops/trap-iff-spec-traps")
	if trapped || wantTrap {
		return
	}
	got := res[0]
	rt := op.results[0]
	isF := rt == 'f' || rt == 'F'
	// NaN payloads are unspecified: observe one canonical value (branch-free)
	vfObserve("result", vfSelect(isF && vfNaN(rt, got), 0x7ff8000000000000, got))
	if rt == 'f' || rt == 'F' {
		// NaN payloads are not compared
		vfAssert(vfB2U(got == want)|vfB2U(vfNaN(rt, got))&vfB2U(vfNaN(rt, want)) == 1, "ops/result-equals-spec")
	} else {
		vfAssert(got == want, "ops/result-equals-spec")
	}
}
