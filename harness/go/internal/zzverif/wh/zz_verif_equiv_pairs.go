//go:build verif

package wh

// replaced by the C05 / C06 drivers (overlay) with the module pairs to compare
var vfEquivPairs = []struct{ a, b string }{}

// i32 arguments of exports whose "module/export" name starts with pfx are assumed < max
var vfEquivArgMax = []struct {
	pfx string
	max uint32
}{}
