//go:build verif

package wh

import "strings"

// C05 / C06 — a transformed module (printed and re-parsed; dead-code stripped)
// behaves exactly like the original: for every function exported by the
// original, both binaries are executed with the same symbolic arguments on
// the same symbolic initial memory window and must agree on trap, results,
// exported globals and the memory window afterwards.

func init() {
	vfRegistry["VfH_equiv"] = VfH_equiv
}

// Module pairs (original, transformed) come from zz_verif_equiv_pairs.go, which the driver
// replaces by overlay with the list for the property being checked.

func VfN_equiv() int {
	n := 0
	for _, p := range vfEquivPairs {
		n += len(vfWasmExports(vfWasmLoad(p.a)))
	}
	return n
}

// the memory window that is made symbolic / compared (bytes)
const vfWinBase, vfWinLen = 64, 16

func VfH_equiv() {
	k := vfCase()
	pi := 0
	var ha int
	var exps []string
	for {
		ha = vfWasmLoad(vfEquivPairs[pi].a)
		exps = vfWasmExports(ha)
		if k < len(exps) {
			break
		}
		k -= len(exps)
		pi++
	}
	pair := vfEquivPairs[pi]
	hb := vfWasmLoad(pair.b)
	parts := strings.Split(exps[k], ":")
	name, params, results := parts[0], parts[1], parts[2]
	vfNote("case:" + pair.a + "/" + name)
	// the transformed module must still export the function with the same signature
	found := false
	for _, e := range vfWasmExports(hb) {
		if e == exps[k] {
			found = true
		}
	}
	vfAssert(found, "equiv/export-kept-with-same-signature")
	if !found {
		return
	}
	if len(parts) > 3 {
		// an imported function exported again: only its presence and signature are compared (it has no body)
		return
	}
	var args []uint64
	names := []string{"p0", "p1", "p2", "p3", "p4", "p5"}
	// stated bound on i32 arguments (addresses, loop counts, sizes) for the exports the driver lists
	amax := uint32(0)
	full := pair.a + "/" + name
	best := -1
	for _, b := range vfEquivArgMax {
		if strings.HasPrefix(full, b.pfx) && len(b.pfx) > best {
			best, amax = len(b.pfx), b.max
		}
	}
	for i := 0; i < len(params) && i < len(names); i++ {
		if params[i] == 'i' && amax != 0 {
			v := vfU32(names[i] + ".32")
			vfAssume(v < amax)
			args = append(args, uint64(v))
		} else if params[i] == 'i' || params[i] == 'f' {
			args = append(args, uint64(vfU32(names[i]+".32")))
		} else {
			args = append(args, vfU64(names[i]+".64"))
		}
	}
	if len(params) > len(names) {
		vfNote("too many parameters: skipped")
		return
	}
	// same symbolic initial memory window in both instances (if they have a memory)
	hasMem := vfWasmPages(ha) > 0 && vfWasmPages(hb) > 0
	if hasMem {
		w0, w1 := vfU64("win0"), vfU64("win1")
		vfWasmMemWrite(ha, vfWinBase, 8, w0)
		vfWasmMemWrite(ha, vfWinBase+8, 8, w1)
		vfWasmMemWrite(hb, vfWinBase, 8, w0)
		vfWasmMemWrite(hb, vfWinBase+8, 8, w1)
	}
	ra, ta := vfWasmCall(ha, name, args...)
	rb, tb := vfWasmCall(hb, name, args...)
	vfObserve("trapped", vfB2U(ta))
	vfAssert(ta == tb, "equiv/same-trap-outcome")
	if ta || tb {
		return
	}
	same := uint64(1)
	for i := range ra {
		t := results[i]
		if t == 'f' || t == 'F' {
			same &= vfB2U(ra[i] == rb[i]) | vfB2U(vfNaN(t, ra[i]))&vfB2U(vfNaN(t, rb[i]))
		} else {
			same &= vfB2U(ra[i] == rb[i])
		}
	}
	vfAssert(same == 1, "equiv/same-results")
	if len(ra) > 0 {
		t := results[0]
		if t == 'f' || t == 'F' {
			vfObserve("r0", vfSelect(vfNaN(t, ra[0]), 0x7ff8dead, ra[0]))
		} else {
			vfObserve("r0", ra[0])
		}
	}
	if hasMem {
		vfAssert(vfB2U(vfWasmMemRead(ha, vfWinBase, 8) == vfWasmMemRead(hb, vfWinBase, 8))&
			vfB2U(vfWasmMemRead(ha, vfWinBase+8, 8) == vfWasmMemRead(hb, vfWinBase+8, 8))&
			vfB2U(vfWasmPages(ha) == vfWasmPages(hb)) == 1, "equiv/same-memory-effects")
		vfObserve("w0", vfWasmMemRead(ha, vfWinBase, 8))
	}
	vfAssert(vfWasmHostCalls(ha) == vfWasmHostCalls(hb), "equiv/same-host-calls")
}
