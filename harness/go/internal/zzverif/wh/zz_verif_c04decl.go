//go:build verif

package wh

import "math"

// C04 — declarations: module c04decl (harness/wat/c05_decl.wat assembled by the tree's wat2wasm) must mean
// what its text says: data strings with escapes end up at their offsets, globals of all four types carry
// their initial values, the start function has run at instantiation, stand-alone and inline exports name
// the right objects, imports come first in the function index space, float constants are the nearest
// representable values, locals start at zero, block results are passed, nop does nothing,
// memory.copy/fill act on the written ranges.

func init() { vfRegistry["VfH_decl"] = VfH_decl }

var vfDeclCases = []string{"data", "globals", "fglobals", "f32consts", "f64consts", "i64consts", "k1", "k1alias", "locals", "blockres", "sel", "misc", "start", "nine", "nineres"}

func VfN_decl() int { return len(vfDeclCases) }

func VfH_decl() {
	name := vfDeclCases[vfCase()]
	vfNote("case:" + name)
	h := vfWasmLoad("c04decl")
	switch name {
	case "data":
		// (data (i32.const 64) "abc\00\01\ff\"q\\\n\t") and (data (i32.const 200) "\7f\80\fe")
		want := []byte{'a', 'b', 'c', 0, 1, 0xff, '"', 'q', '\\', '\n', '\t'}
		ok := uint64(1)
		for i, b := range want {
			ok &= vfB2U(vfWasmMemRead(h, uint32(64+i), 1) == uint64(b))
		}
		ok &= vfB2U(vfWasmMemRead(h, 200, 4) == 0x00fe807f)
		ok &= vfB2U(vfWasmMemRead(h, 75, 1) == 0)
		vfAssert(ok == 1, "decl/data-segments-hold-the-written-bytes")
		a := vfU32("a.u32")
		vfAssume(a < 300)
		r, trapped := vfWasmCall(h, "data", uint64(a))
		vfAssert(!trapped && r[0] == vfWasmMemRead(h, a, 1), "decl/load8-reads-the-data")
	case "globals":
		r, trapped := vfWasmCall(h, "globals")
		// (-2^31 sign-extended) xor (-2^63) + 42 + gexp, where the start function has set gexp to 77
		want := (uint64(0xffffffff80000000) ^ uint64(1)<<63) + 42 + 77
		vfObserve("globals", r[0])
		vfAssert(!trapped && r[0] == want, "decl/global-initial-values-and-start-effect")
	case "fglobals":
		r, trapped := vfWasmCall(h, "fglobals")
		vfAssert(!trapped && r[0] == math.Float64bits(1.5+(-0.1)), "decl/float-global-initial-values")
	case "f32consts":
		i := vfU32("i.u32")
		want := []float32{0.1, float32(math.Copysign(0, -1)), 3.4028234e38, 1e-45, 16777217}
		r, trapped := vfWasmCall(h, "f32consts", uint64(i))
		k := i
		if k > 4 {
			k = 4
		}
		vfAssert(!trapped && r[0] == uint64(math.Float32bits(want[k])), "decl/f32-constants-nearest-representable")
	case "f64consts":
		i := vfU32("i.u32")
		want := []float64{0.1, math.Copysign(0, -1), 1.7976931348623157e308, 5e-324, 9007199254740993}
		r, trapped := vfWasmCall(h, "f64consts", uint64(i))
		k := i
		if k > 4 {
			k = 4
		}
		vfAssert(!trapped && r[0] == math.Float64bits(want[k]), "decl/f64-constants-nearest-representable")
	case "i64consts":
		i := vfU32("i.u32")
		r, trapped := vfWasmCall(h, "i64consts", uint64(i))
		vfAssert(!trapped && r[0] == vfSelect(i != 0, 0x7fffffffffffffff, 0xffffffffffffffff), "decl/i64-constants")
	case "k1", "k1alias":
		r, trapped := vfWasmCall(h, name)
		vfAssert(!trapped && r[0] == 1, "decl/inline-and-stand-alone-export-name-the-same-function")
	case "locals":
		a, b := vfU32("a.u32"), vfU64("b.u64")
		r, trapped := vfWasmCall(h, "locals", uint64(a), b)
		vfAssert(!trapped && r[0] == uint64(a)+b, "decl/params-and-locals-are-indexed-in-declaration-order")
	case "blockres":
		a := vfU32("a.u32")
		r, trapped := vfWasmCall(h, "blockres", uint64(a))
		vfAssert(!trapped && r[0] == vfSelect(a != 0, 5, 6), "decl/block-loop-if-results")
	case "sel":
		a, b := vfU32("a.u32"), vfU64("b.u64")
		r, trapped := vfWasmCall(h, "sel", uint64(a), b)
		// the imported function returns 0 and the imported global is 0 in both engines
		name0, x, y := vfWasmHostCall(h, 0)
		vfAssert(!trapped && r[0] == 0 && vfWasmHostCalls(h) == 1 && name0 == "env.hf" && x == uint64(a) && y == b, "decl/imported-function-is-called-with-the-arguments")
	case "misc":
		a := vfU32("a.u32")
		vfAssume(a < 8)
		_, trapped := vfWasmCall(h, "misc", uint64(a))
		// memory.copy 100 <- 64 (4 bytes), memory.fill 120 <- 255 (2 bytes), then unreachable
		vfAssert(trapped, "decl/unreachable-traps")
		vfAssert(vfWasmMemRead(h, 100, 4) == 0x00636261 && vfWasmMemRead(h, 120, 2) == 0xffff && vfWasmMemRead(h, 122, 1) == 0, "decl/memory-copy-and-fill")
	case "nine":
		k, f := vfU64("k.u64"), vfU64("f.u64")
		vfAssume(vfB2U(vfNaN('F', f)) == 0)
		want := math.Float64bits(math.Float64frombits(f) + float64(int64(k)))
		ok := uint64(1)
		for i, fn := range []string{"eight", "nine", "ten"} {
			args := []uint64{1, 2, 3, 4, 5, 6}
			for j := 0; j < i; j++ {
				args = append(args, 7)
			}
			args = append(args, k, f)
			r, trapped := vfWasmCall(h, fn, args...)
			ok &= vfB2U(!trapped) & (vfB2U(r[0] == want) | vfB2U(vfNaN('F', r[0]))&vfB2U(vfNaN('F', want)))
		}
		vfAssert(ok == 1, "decl/long-parameter-lists-keep-each-parameter-type")
	case "nineres":
		a := vfU32("a.u32")
		r, trapped := vfWasmCall(h, "nineres", uint64(a))
		vfAssert(!trapped && len(r) == 9 && r[0] == uint64(a) && r[6] == uint64(a) && r[7] == 7 && r[8] == math.Float64bits(2.5), "decl/nine-results-keep-each-result-type")
	case "start":
		g := vfWasmGlobal(h, "gexp")
		vfAssert(g == 77, "decl/start-function-ran-and-exported-global-is-readable")
	}
}
