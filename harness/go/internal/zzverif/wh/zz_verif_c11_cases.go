//go:build verif

package wh

// replaced by the C11 / C12 drivers (overlay) with the generated case tables
var vfC11Cases = []struct {
	name string
	fn   func()
}{}

var vfC12Cases = []struct {
	name string
	fn   func()
}{}
