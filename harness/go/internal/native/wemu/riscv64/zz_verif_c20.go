//go:build verif

package riscv64

import (
	"math"

	"wa-lang.org/wa/internal/native/wemu/device"
)

// C20 — one step of the wemu RISC-V emulator against a reference written from
// the RISC-V unprivileged specification (RV32I/RV64I + M). The same file serves
// package riscv32 (the check driver rewrites the package clause); XLEN follows RVUInt.

func init() { vfRegistry["VfH_step"] = VfH_step }

const vfXLEN = 32 + 32*int(uint64(^RVUInt(0))>>63)

type vfInsn struct {
	name        string
	mask, value uint32
	rv64only    bool
}

func vfR(name string, opcode, f3, f7 uint32, rv64 bool) vfInsn {
	return vfInsn{name, 0xFE00707F, f7<<25 | f3<<12 | opcode, rv64}
}
func vfI(name string, opcode, f3 uint32, rv64 bool) vfInsn {
	return vfInsn{name, 0x0000707F, f3<<12 | opcode, rv64}
}

// vfSpec: encodings from the RISC-V unprivileged ISA manual (chapter "RV32/64G Instruction Set Listings").
func vfSpec() []vfInsn {
	l := []vfInsn{
		{"LUI", 0x7F, 0x37, false}, {"AUIPC", 0x7F, 0x17, false}, {"JAL", 0x7F, 0x6F, false},
		vfI("JALR", 0x67, 0, false),
		vfI("BEQ", 0x63, 0, false), vfI("BNE", 0x63, 1, false), vfI("BLT", 0x63, 4, false),
		vfI("BGE", 0x63, 5, false), vfI("BLTU", 0x63, 6, false), vfI("BGEU", 0x63, 7, false),
		vfI("LB", 0x03, 0, false), vfI("LH", 0x03, 1, false), vfI("LW", 0x03, 2, false),
		vfI("LBU", 0x03, 4, false), vfI("LHU", 0x03, 5, false), vfI("LWU", 0x03, 6, true), vfI("LD", 0x03, 3, true),
		vfI("SB", 0x23, 0, false), vfI("SH", 0x23, 1, false), vfI("SW", 0x23, 2, false), vfI("SD", 0x23, 3, true),
		vfI("ADDI", 0x13, 0, false), vfI("SLTI", 0x13, 2, false), vfI("SLTIU", 0x13, 3, false),
		vfI("XORI", 0x13, 4, false), vfI("ORI", 0x13, 6, false), vfI("ANDI", 0x13, 7, false),
		vfR("ADD", 0x33, 0, 0x00, false), vfR("SUB", 0x33, 0, 0x20, false), vfR("SLL", 0x33, 1, 0x00, false),
		vfR("SLT", 0x33, 2, 0x00, false), vfR("SLTU", 0x33, 3, 0x00, false), vfR("XOR", 0x33, 4, 0x00, false),
		vfR("SRL", 0x33, 5, 0x00, false), vfR("SRA", 0x33, 5, 0x20, false), vfR("OR", 0x33, 6, 0x00, false),
		vfR("AND", 0x33, 7, 0x00, false),
		vfR("MUL", 0x33, 0, 1, false), vfR("MULH", 0x33, 1, 1, false), vfR("MULHSU", 0x33, 2, 1, false),
		vfR("MULHU", 0x33, 3, 1, false), vfR("DIV", 0x33, 4, 1, false), vfR("DIVU", 0x33, 5, 1, false),
		vfR("REM", 0x33, 6, 1, false), vfR("REMU", 0x33, 7, 1, false),
		vfI("ADDIW", 0x1B, 0, true), vfR("SLLIW", 0x1B, 1, 0x00, true), vfR("SRLIW", 0x1B, 5, 0x00, true),
		vfR("SRAIW", 0x1B, 5, 0x20, true),
		vfR("ADDW", 0x3B, 0, 0x00, true), vfR("SUBW", 0x3B, 0, 0x20, true), vfR("SLLW", 0x3B, 1, 0x00, true),
		vfR("SRLW", 0x3B, 5, 0x00, true), vfR("SRAW", 0x3B, 5, 0x20, true),
		vfR("MULW", 0x3B, 0, 1, true), vfR("DIVW", 0x3B, 4, 1, true), vfR("DIVUW", 0x3B, 5, 1, true),
		vfR("REMW", 0x3B, 6, 1, true), vfR("REMUW", 0x3B, 7, 1, true),
		vfI("FENCE", 0x0F, 0, false),
	}
	// shift immediates: 6-bit shamt on RV64 (funct6), 5-bit on RV32 (funct7)
	sm := uint32(0xFC00707F)
	if vfXLEN == 32 {
		sm = 0xFE00707F
	}
	l = append(l, vfInsn{"SLLI", sm, 0x00<<26 | 1<<12 | 0x13, false},
		vfInsn{"SRLI", sm, 0x00<<26 | 5<<12 | 0x13, false},
		vfInsn{"SRAI", sm, 0x10<<26 | 5<<12 | 0x13, false})
	return l
}

func VfN_step() int { return len(vfSpec()) }

// ----- symbolic RAM behind the real device.Bus -----

type vfMem struct {
	inst   uint32
	data   uint64
	reads  int
	rAddr  uint64
	rSize  uint64
	writes int
	wAddr  uint64
	wSize  uint64
	wVal   uint64
	fetch  uint64
}

func (m *vfMem) Name() string      { return "vfmem" }
func (m *vfMem) AddrBegin() uint64 { return 0 }
func (m *vfMem) AddrEnd() uint64   { return ^uint64(0) }
func vfSizeMask(size uint64) uint64 {
	if size >= 8 {
		return ^uint64(0)
	}
	return uint64(1)<<(8*size) - 1
}
func (m *vfMem) Read(addr, size uint64) (uint64, error) {
	m.reads++
	if m.reads == 1 {
		m.fetch = addr
		return uint64(m.inst), nil
	}
	m.rAddr, m.rSize = addr, size
	return m.data & vfSizeMask(size), nil
}
func (m *vfMem) Write(addr, size, value uint64) error {
	m.writes++
	m.wAddr, m.wSize, m.wVal = addr, size, value&vfSizeMask(size)
	return nil
}

// ----- reference semantics, written on the package's own register types -----
// (X = RVUInt, S = RVInt: the same source serves RV32 and RV64, and the
// solver compares terms of the machine's native width)

type vfX = RVUInt
type vfSg = RVInt

type vfStepOut struct {
	known        bool
	wrRd         bool
	rdVal        vfX
	pc           vfX
	load         bool
	lAddr        vfX
	lSize        uint64
	store        bool
	sAddr        vfX
	sSize        uint64
	sVal         uint64
}

func vfBX(b bool) vfX { return vfX(vfB2U(b)) }

func vfRef(name string, w uint32, x *[32]vfX, pc vfX, mem uint64) vfStepOut {
	rd, rs1, rs2 := w>>7&31, w>>15&31, w>>20&31
	// x0 reads as zero: read from a copy of the register file whose cell 0 is 0
	// (no branch on the register numbers, and operands have the same shape as a
	// register-file read, which keeps division/remainder queries structural)
	xr := *x
	xr[0] = 0
	a, b := xr[rs1], xr[rs2]
	_ = rd
	sx := func(v int32) vfX { return vfX(vfSg(v)) } // sign-extend a 32-bit immediate to XLEN
	immI := sx(int32(w) >> 20)
	immS := sx(int32(w)>>25<<5 | int32(w>>7&31))
	immB := sx(int32(w)>>31<<12 | int32(w>>7&1<<11|w>>25&0x3f<<5|w>>8&0xf<<1))
	immU := sx(int32(w & 0xfffff000))
	immJ := sx(int32(w)>>31<<20 | int32(w>>12&0xff<<12|w>>20&1<<11|w>>21&0x3ff<<1))
	o := vfStepOut{known: true, pc: pc + 4}
	set := func(v vfX) { o.wrRd, o.rdVal = true, v }
	w32 := func(v uint32) vfX { return vfX(vfSg(int32(v))) } // sign-extended 32-bit result
	br := func(c bool) {
		if c {
			o.pc = pc + immB
		}
	}
	ld := func(size uint64) uint64 {
		o.load, o.lAddr, o.lSize = true, a+immI, size
		return mem & vfSizeMask(size)
	}
	st := func(size uint64) {
		o.store, o.sAddr, o.sSize, o.sVal = true, a+immS, size, uint64(b)&vfSizeMask(size)
	}
	const shm = XLen - 1
	minS := vfSg(-1) << (XLen - 1)
	shamt := uint32(w>>20) & shm
	switch name {
	case "LUI":
		set(immU)
	case "AUIPC":
		set(pc + immU)
	case "JAL":
		set(pc + 4)
		o.pc = pc + immJ
	case "JALR":
		set(pc + 4)
		o.pc = (a + immI) &^ 1
	case "BEQ":
		br(a == b)
	case "BNE":
		br(a != b)
	case "BLT":
		br(vfSg(a) < vfSg(b))
	case "BGE":
		br(vfSg(a) >= vfSg(b))
	case "BLTU":
		br(a < b)
	case "BGEU":
		br(a >= b)
	case "LB":
		set(vfX(vfSg(int8(ld(1)))))
	case "LH":
		set(vfX(vfSg(int16(ld(2)))))
	case "LW":
		set(vfX(vfSg(int32(ld(4)))))
	case "LBU":
		set(vfX(ld(1)))
	case "LHU":
		set(vfX(ld(2)))
	case "LWU":
		set(vfX(ld(4)))
	case "LD":
		set(vfX(ld(8)))
	case "SB":
		st(1)
	case "SH":
		st(2)
	case "SW":
		st(4)
	case "SD":
		st(8)
	case "ADDI":
		set(a + immI)
	case "SLTI":
		set(vfBX(vfSg(a) < vfSg(immI)))
	case "SLTIU":
		set(vfBX(a < immI))
	case "XORI":
		set(a ^ immI)
	case "ORI":
		set(a | immI)
	case "ANDI":
		set(a & immI)
	case "SLLI":
		set(a << shamt)
	case "SRLI":
		set(a >> shamt)
	case "SRAI":
		set(vfX(vfSg(a) >> shamt))
	case "ADD":
		set(a + b)
	case "SUB":
		set(a - b)
	case "SLL":
		set(a << (b & shm))
	case "SLT":
		set(vfBX(vfSg(a) < vfSg(b)))
	case "SLTU":
		set(vfBX(a < b))
	case "XOR":
		set(a ^ b)
	case "SRL":
		set(a >> (b & shm))
	case "SRA":
		set(vfX(vfSg(a) >> (b & shm)))
	case "OR":
		set(a | b)
	case "AND":
		set(a & b)
	case "FENCE":
	case "MUL":
		set(a * b)
	case "DIV":
		switch {
		case b == 0:
			set(^vfX(0))
		case vfSg(b) == -1 && vfSg(a) == minS:
			set(a)
		default:
			set(vfX(vfSg(a) / vfSg(b)))
		}
	case "DIVU":
		if b == 0 {
			set(^vfX(0))
		} else {
			set(a / b)
		}
	case "REM":
		switch {
		case b == 0:
			set(a)
		case vfSg(b) == -1 && vfSg(a) == minS:
			set(0)
		default:
			set(vfX(vfSg(a) % vfSg(b)))
		}
	case "REMU":
		if b == 0 {
			set(a)
		} else {
			set(a % b)
		}
	case "ADDIW":
		set(w32(uint32(a) + uint32(immI)))
	case "SLLIW":
		set(w32(uint32(a) << (shamt & 31)))
	case "SRLIW":
		set(w32(uint32(a) >> (shamt & 31)))
	case "SRAIW":
		set(w32(uint32(int32(uint32(a)) >> (shamt & 31))))
	case "ADDW":
		set(w32(uint32(a) + uint32(b)))
	case "SUBW":
		set(w32(uint32(a) - uint32(b)))
	case "SLLW":
		set(w32(uint32(a) << (uint32(b) & 31)))
	case "SRLW":
		set(w32(uint32(a) >> (uint32(b) & 31)))
	case "SRAW":
		set(w32(uint32(int32(uint32(a)) >> (uint32(b) & 31))))
	case "MULW":
		set(w32(uint32(a) * uint32(b)))
	case "DIVW":
		a32, b32 := int32(uint32(a)), int32(uint32(b))
		switch {
		case b32 == 0:
			set(^vfX(0))
		case b32 == -1 && a32 == math.MinInt32:
			set(w32(uint32(a32)))
		default:
			set(w32(uint32(a32 / b32)))
		}
	case "DIVUW":
		if uint32(b) == 0 {
			set(^vfX(0))
		} else {
			set(w32(uint32(a) / uint32(b)))
		}
	case "REMW":
		a32, b32 := int32(uint32(a)), int32(uint32(b))
		switch {
		case b32 == 0:
			set(w32(uint32(a32)))
		case b32 == -1 && a32 == math.MinInt32:
			set(0)
		default:
			set(w32(uint32(a32 % b32)))
		}
	case "REMUW":
		if uint32(b) == 0 {
			set(w32(uint32(a)))
		} else {
			set(w32(uint32(a) % uint32(b)))
		}
	default: // MULH, MULHSU, MULHU: 128-bit products, no reference here
		o.known = false
	}
	return o
}

var vfRegNames = [32]string{"x0", "x1", "x2", "x3", "x4", "x5", "x6", "x7", "x8", "x9", "x10", "x11", "x12", "x13", "x14", "x15",
	"x16", "x17", "x18", "x19", "x20", "x21", "x22", "x23", "x24", "x25", "x26", "x27", "x28", "x29", "x30", "x31"}

func VfH_step() {
	in := vfSpec()[vfCase()]
	vfNote("case:" + in.name)
	if in.rv64only && vfXLEN == 32 {
		vfNote("rv64-only")
		return
	}
	// free operand bits symbolic, opcode/funct bits constant (so the decoder's table scan is decided by known bits)
	w := vfU32("inst")&^in.mask | in.value
	cpu := NewCPU()
	var x0 [32]vfX
	for i := 0; i < 32; i++ {
		if vfXLEN == 32 {
			x0[i] = vfX(vfU32(vfRegNames[i]))
		} else {
			x0[i] = vfX(vfU64(vfRegNames[i]))
		}
		cpu.RegX[i] = x0[i]
	}
	f0bits := vfU64("f0")
	f1bits := vfU64("f1")
	cpu.RegF[0] = math.Float64frombits(f0bits)
	cpu.RegF[1] = math.Float64frombits(f1bits)
	var pc vfX
	if vfXLEN == 32 {
		pc = vfX(vfU32("pc"))
	} else {
		pc = vfX(vfU64("pc"))
	}
	cpu.PC = pc
	mem := &vfMem{inst: w, data: vfU64("mem")}
	bus := device.NewBus()
	bus.MapDevice(mem)

	var err error
	p := vfCatch(func() { err = cpu.StepRun(bus) })
	supported := !p && err == nil
	vfObserve("supported", vfB2U(supported))
	if !supported {
		vfNote("unsupported")
		return
	}
	ref := vfRef(in.name, w, &x0, pc, mem.data)
	if !ref.known {
		vfNote("no-reference")
		return
	}
	vfObserve("pc", uint64(cpu.PC))
	vfAssert(mem.fetch == uint64(pc), "step/fetch-address")
	// integer registers as subsequently read (x0 reads as zero)
	rd := int(w >> 7 & 31)
	exp := x0
	if ref.wrRd {
		exp[rd] = ref.rdVal
	}
	// every register x1..x31: k is a symbolic register number, so one query covers all of them
	k := vfU8("k") & 31
	vfAssume(k != 0)
	vfObserve("xk", uint64(cpu.RegX[k]))
	okRegs := cpu.RegX[k] == exp[k]
	vfAssert(okRegs, "step/int-registers")
	vfAssert(cpu.PC == ref.pc, "step/pc")
	if ref.load {
		vfAssert(mem.reads == 2 && mem.rAddr == uint64(ref.lAddr) && mem.rSize == ref.lSize, "step/load-address-and-size")
	} else {
		vfAssert(mem.reads == 1, "step/no-spurious-load")
	}
	if ref.store {
		vfAssert(mem.writes == 1 && mem.wAddr == uint64(ref.sAddr) && mem.wSize == ref.sSize && mem.wVal == ref.sVal, "step/memory-write")
	} else {
		vfAssert(mem.writes == 0, "step/no-spurious-store")
	}
	// floating-point registers are untouched by integer instructions (f0 is an ordinary register)
	vfAssert(math.Float64bits(cpu.RegF[1]) == f1bits, "step/fp-registers")
	vfAssert(math.Float64bits(cpu.RegF[0]) == f0bits, "step/f0-preserved")
}
