//go:build verif

package loong64

import (
	"math"

	la "wa-lang.org/wa/internal/native/loong64"
	"wa-lang.org/wa/internal/native/wemu/device"
)

// C20 — one step of the wemu LoongArch64 emulator against a reference written
// from the LoongArch Reference Manual vol. 1 (v1.00), for the instructions the
// emulator implements (everything else is panic("TODO") / privileged = unsupported).

func init() { vfRegistry["VfH_step"] = VfH_step }

var vfInsns = []string{
	"add.w", "add.d", "sub.w", "sub.d", "and", "or", "slt",
	"slli.w", "srli.w", "srai.w", "addi.w", "ori", "lu12i.w", "pcaddu12i",
	"ld.bu", "ld.d", "st.b", "st.w", "st.d",
	"beq", "bne", "blt", "b", "bl",
	"fadd.s", "fmul.d", "fsub.d",
	// implemented by the ISA but not (yet) by the emulator: must stay "unsupported", never wrong
	"addi.d", "sltu", "xor", "ld.w", "bge", "jirl", "mul.d", "div.d",
}

func VfN_step() int { return len(vfInsns) }

type vfMem struct {
	inst   uint32
	data   uint64
	reads  int
	rAddr  uint64
	rSize  uint64
	writes int
	wAddr  uint64
	wSize  uint64
	wVal   uint64
	fetch  uint64
}

func (m *vfMem) Name() string      { return "vfmem" }
func (m *vfMem) AddrBegin() uint64 { return 0 }
func (m *vfMem) AddrEnd() uint64   { return ^uint64(0) }
func vfSizeMask(size uint64) uint64 {
	if size >= 8 {
		return ^uint64(0)
	}
	return uint64(1)<<(8*size) - 1
}
func (m *vfMem) Read(addr, size uint64) (uint64, error) {
	m.reads++
	if m.reads == 1 {
		m.fetch = addr
		return uint64(m.inst), nil
	}
	m.rAddr, m.rSize = addr, size
	return m.data & vfSizeMask(size), nil
}
func (m *vfMem) Write(addr, size, value uint64) error {
	m.writes++
	m.wAddr, m.wSize, m.wVal = addr, size, value&vfSizeMask(size)
	return nil
}

type vfStepOut struct {
	known        bool
	wrRd         bool
	rdIdx        uint32
	rdVal        uint64
	pc           uint64
	load         bool
	lAddr, lSize uint64
	store        bool
	sAddr, sSize uint64
	sVal         uint64
	wrFd         bool
	fdBits       uint64
	fdSingle     bool
}

func vfSext(v uint64, bits uint) uint64 { return uint64(int64(v<<(64-bits)) >> (64 - bits)) }

func vfRef(name string, w uint32, x *[32]uint64, f *[32]uint64, pc uint64, mem uint64) vfStepOut {
	rd, rj, rk := w&31, w>>5&31, w>>10&31
	// r0 reads as zero: read from a copy of the register file whose cell 0 is 0
	xr := *x
	xr[0] = 0
	a, b, d := xr[rj], xr[rk], xr[rd]
	ui5 := uint64(w >> 10 & 31)
	si12 := vfSext(uint64(w>>10&0xfff), 12)
	ui12 := uint64(w >> 10 & 0xfff)
	si20 := vfSext(uint64(w>>5&0xfffff), 20)
	off16 := vfSext(uint64(w>>10&0xffff)<<2, 18)
	off26 := vfSext((uint64(w>>10&0xffff)|uint64(w&0x3ff)<<16)<<2, 28)
	o := vfStepOut{known: true, pc: pc + 4, rdIdx: rd}
	set := func(v uint64) { o.wrRd, o.rdVal = true, v }
	w32 := func(v uint64) uint64 { return vfSext(v&0xffffffff, 32) }
	ld := func(size uint64) {
		o.load, o.lAddr, o.lSize = true, a+si12, size
		set(mem & vfSizeMask(size))
	}
	st := func(size uint64) { o.store, o.sAddr, o.sSize, o.sVal = true, a+si12, size, d&vfSizeMask(size) }
	br := func(c bool) {
		if c {
			o.pc = pc + off16
		}
	}
	switch name {
	case "add.w":
		set(w32(a + b))
	case "add.d":
		set(a + b)
	case "sub.w":
		set(w32(a - b))
	case "sub.d":
		set(a - b)
	case "and":
		set(a & b)
	case "or":
		set(a | b)
	case "slt":
		set(vfB2U(int64(a) < int64(b)))
	case "slli.w":
		set(w32(a << ui5))
	case "srli.w":
		set(w32((a & 0xffffffff) >> ui5))
	case "srai.w":
		set(uint64(int64(int32(uint32(a))) >> ui5))
	case "addi.w":
		set(w32(a + si12))
	case "ori":
		set(a | ui12)
	case "lu12i.w":
		set(w32(si20 << 12))
	case "pcaddu12i":
		set(pc + si20<<12)
	case "ld.bu":
		ld(1)
	case "ld.d":
		ld(8)
	case "st.b":
		st(1)
	case "st.w":
		st(4)
	case "st.d":
		st(8)
	case "beq":
		br(a == d)
	case "bne":
		br(a != d)
	case "blt":
		br(int64(a) < int64(d))
	case "b":
		o.pc = pc + off26
	case "bl":
		o.wrRd, o.rdIdx, o.rdVal = true, 1, pc+4
		o.pc = pc + off26
	case "fadd.s":
		fj := float32(math.Float64frombits(f[rj]))
		fk := float32(math.Float64frombits(f[rk]))
		o.wrFd, o.fdSingle = true, true
		o.fdBits = math.Float64bits(float64(fj + fk))
	case "fmul.d":
		o.wrFd = true
		o.fdBits = math.Float64bits(math.Float64frombits(f[rj]) * math.Float64frombits(f[rk]))
	case "fsub.d":
		o.wrFd = true
		o.fdBits = math.Float64bits(math.Float64frombits(f[rj]) - math.Float64frombits(f[rk]))
	default:
		o.known = false
	}
	return o
}

var vfRegNames = [32]string{"r0", "r1", "r2", "r3", "r4", "r5", "r6", "r7", "r8", "r9", "r10", "r11", "r12", "r13", "r14", "r15",
	"r16", "r17", "r18", "r19", "r20", "r21", "r22", "r23", "r24", "r25", "r26", "r27", "r28", "r29", "r30", "r31"}

// branch-free Boolean connectives (Go's && and || compile to control flow, which forks the symbolic executor)
func vfAnd(a, b bool) bool { return vfB2U(a)&vfB2U(b) == 1 }
func vfOr(a, b bool) bool  { return vfB2U(a)|vfB2U(b) == 1 }

func VfH_step() {
	name := vfInsns[vfCase()]
	vfNote("case:" + name)
	mask, value, ok := la.VfPattern(name)
	vfAssume(ok)
	// free operand bits symbolic, opcode bits constant (so the decoder's table scan is decided by known bits)
	w := vfU32("inst")&^mask | value
	cpu := NewCPU()
	var x0, f0 [32]uint64
	for i := 0; i < 32; i++ {
		x0[i] = vfU64(vfRegNames[i])
		cpu.RegX[i] = LAUInt(x0[i])
	}
	isFP := name[0] == 'f'
	for i := 0; i < 32; i++ {
		if isFP || i < 2 {
			f0[i] = vfU64("f" + vfRegNames[i][1:])
			// the emulator keeps FP registers as float64 values: NaN payloads do not survive, use non-NaN states
			vfAssume(vfOr(f0[i]&0x7ff0000000000000 != 0x7ff0000000000000, f0[i]&0x000fffffffffffff == 0))
		}
		cpu.RegF[i] = math.Float64frombits(f0[i])
	}
	pc := vfU64("pc")
	cpu.PC = LAUInt(pc)
	mem := &vfMem{inst: w, data: vfU64("mem")}
	bus := device.NewBus()
	bus.MapDevice(mem)

	var err error
	p := vfCatch(func() { err = cpu.StepRun(bus) })
	supported := !p && err == nil
	vfObserve("supported", vfB2U(supported))
	if !supported {
		vfNote("unsupported")
		return
	}
	ref := vfRef(name, w, &x0, &f0, pc, mem.data)
	vfAssert(ref.known, "step/supported-instruction-has-reference")
	if !ref.known {
		return
	}
	vfObserve("pc", uint64(cpu.PC))
	vfAssert(mem.fetch == pc, "step/fetch-address")
	exp := x0
	if ref.wrRd {
		exp[ref.rdIdx] = ref.rdVal
	}
	// every register r1..r31: k is a symbolic register number, so one query covers all of them
	k := vfU8("k") & 31
	vfAssume(k != 0)
	vfObserve("rk", uint64(cpu.RegX[k]))
	vfAssert(uint64(cpu.RegX[k]) == exp[k], "step/int-registers")
	vfAssert(uint64(cpu.PC) == ref.pc, "step/pc")
	if ref.load {
		vfAssert(mem.reads == 2 && mem.rAddr == ref.lAddr && mem.rSize == ref.lSize, "step/load-address-and-size")
	} else {
		vfAssert(mem.reads == 1, "step/no-spurious-load")
	}
	if ref.store {
		vfAssert(mem.writes == 1 && mem.wAddr == ref.sAddr && mem.wSize == ref.sSize && mem.wVal == ref.sVal, "step/memory-write")
	} else {
		vfAssert(mem.writes == 0, "step/no-spurious-store")
	}
	// floating-point registers
	if !isFP {
		// integer instructions leave them alone (bit patterns; f0 is an ordinary register)
		vfAssert(math.Float64bits(cpu.RegF[1]) == f0[1], "step/fp-registers")
		vfAssert(math.Float64bits(cpu.RegF[0]) == f0[0], "step/f0-preserved")
		return
	}
	// FP instructions: values compared at the instruction's precision, NaN equals NaN
	fexp := f0
	if ref.wrFd {
		fexp[w&31] = ref.fdBits
	}
	kf := vfU8("kf") & 31
	vfAssume(kf != 0)
	got, want := cpu.RegF[kf], math.Float64frombits(fexp[kf])
	vfAssert(vfOr(math.Float64bits(got) == fexp[kf], vfAnd(got != got, want != want)), "step/fp-registers")
	g0, w0 := cpu.RegF[0], math.Float64frombits(fexp[0])
	vfAssert(vfOr(math.Float64bits(g0) == fexp[0], vfAnd(g0 != g0, w0 != w0)), "step/f0-preserved")
}
