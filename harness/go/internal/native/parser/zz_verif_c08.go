//go:build verif

package parser

import (
	"wa-lang.org/wa/internal/native/abi"
	"wa-lang.org/wa/internal/native/token"
)

// C08 — the native-assembly parser returns (a file or an error) for every CPU on assembly skeletons with
// two bytes at directive, operand and instruction positions: the first enumerated from an alphabet of
// token-class representatives, the second arbitrary among the non-letters (identifier lookups over the
// mnemonic tables with two free letters cost tens of thousands of solver queries per case); no panic, and
// termination within the step budget the driver sets.

func init() {
	vfRegistry["VfH_nasm_pos"] = VfH_nasm_pos
	vfRegistry["VfH_nasm_pos_more"] = VfH_nasm_pos_more
}

// VfH_nasm_pos: the first three; VfH_nasm_pos_more (thorough tier): the other two
var vfCPUs = []abi.CPUType{abi.LOONG64, abi.RISCV64, abi.X64Unix, abi.RISCV32, abi.X64Windows}

// {name, text before, text after}
var vfNasmPos = [][3]string{
	{"empty", "", "\n"},
	{"comment-then", "# c\n", "\n"},
	{"intel-then", ".intel_syntax noprefix\n", "\n"},
	{"section-name", ".section ", "\n"},
	{"align-value", ".section .data\n.align ", "\n"},
	{"quad-value", ".section .data\nx: .quad ", "\n"},
	{"ascii-value", ".section .data\nx: .ascii ", "\n"},
	{"globl-name", ".section .text\n.globl ", "\n"},
	{"label", ".section .text\n", ":\n"},
	{"instruction", ".section .text\nf:\n    ", "\n"},
	{"operand", ".section .text\nf:\n    addi a0, a0, ", "\n"},
	{"x64-operand", ".intel_syntax noprefix\n.section .text\nf:\n    mov eax, ", "\n"},
	{"zh-global", "全局 甲: 字串 = ", "\n"},
	{"zh-func", "函数 主控:\n    ", "\n完毕\n"},
}

func VfN_nasm_pos() int      { return 3 * len(vfNasmPos) }
func VfN_nasm_pos_more() int { return 2 * len(vfNasmPos) }

func VfH_nasm_pos()      { vfNasmPosRun(0) }
func VfH_nasm_pos_more() { vfNasmPosRun(3) }

func vfNasmPosRun(base int) {
	k := vfCase()
	cpu, pos := vfCPUs[base+k/len(vfNasmPos)], vfNasmPos[k%len(vfNasmPos)]
	vfNote("case:" + cpu.String() + "/" + pos[0])
	alphabet := []byte{' ', '\n', '0', 'a', '$', '%', '.', ',', ':', '#', '"', '-', '(', 0x80, 0}
	b0 := alphabet[vfChoice("b0", len(alphabet))]
	b1 := vfBytes("b", 1)[0]
	vfAssume(!(b1 >= 'A' && b1 <= 'Z') && !(b1 >= 'a' && b1 <= 'z') && b1 != '_')
	src := append(append([]byte(pos[1]), b0, b1), pos[2]...)
	p := vfCatch(func() { ParseFile(cpu, token.NewFileSet(), "a.s", src) })
	vfObserve("panicked", vfB2U(p))
	vfAssert(!p, "nasm-parse/no-panic")
}
