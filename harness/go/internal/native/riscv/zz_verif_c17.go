//go:build verif

package riscv

import (
	"wa-lang.org/wa/internal/native/abi"
	"wa-lang.org/wa/internal/zzverif/riscv64asm"
)

// C17 — RISC-V encoder vs the independent x/arch disassembler and vs Wa's own decoder.

func init() {
	vfRegistry["VfH_enc"] = VfH_enc
	vfRegistry["VfH_pseudo"] = VfH_pseudo
}

func vfEncList(pseudo bool) []abi.As {
	var l []abi.As
	for as := 1; as < len(_AOpContextTable) && as < int(ALAST); as++ {
		ctx := &_AOpContextTable[as]
		if ctx.Opcode == 0 && ctx.PseudoAs == 0 {
			continue
		}
		if (ctx.PseudoAs != 0) == pseudo {
			l = append(l, abi.As(as))
		}
	}
	return l
}

func VfN_enc() int { return 2 * len(vfEncList(false)) }

// vfNorm: upper-case, '.' -> '_' (x/arch writes FADD.S, Wa may write FADD_S or fadd.s)
func vfNorm(s string) string {
	b := make([]byte, len(s))
	for i := 0; i < len(s); i++ {
		c := s[i]
		if c >= 'a' && c <= 'z' {
			c -= 'a' - 'A'
		}
		if c == '.' {
			c = '_'
		}
		b[i] = c
	}
	return string(b)
}

type vfOperands struct {
	regs    [6]int
	nregs   int
	base    int
	hasBase bool
	imm     int64
	nimm    int
	other   int
	csr     int64
	hasCSR  bool
}

func vfXarchOperands(inst riscv64asm.Inst) vfOperands {
	var o vfOperands
	for _, a := range inst.Args {
		if a == nil {
			break
		}
		switch v := a.(type) {
		case riscv64asm.Reg:
			o.regs[o.nregs] = int(v)
			o.nregs++
		case riscv64asm.Simm:
			o.imm = int64(v.Imm)
			o.nimm++
		case riscv64asm.Uimm:
			o.imm = int64(v.Imm)
			o.nimm++
		case riscv64asm.RegOffset:
			o.base = int(v.OfsReg)
			o.hasBase = true
			o.imm = int64(v.Ofs.Imm)
			o.nimm++
		case riscv64asm.CSR:
			o.csr = int64(v)
			o.hasCSR = true
		case riscv64asm.RegPtr:
			o.base = int(riscv64asm.VfRegPtrReg(v))
			o.hasBase = true
		default:
			o.other++
		}
	}
	return o
}

// vfWaOperands lists the registers Wa's argument uses, in assembly order
// (rd, rs1, rs2, rs3; a memory base register, if the disassembler shows one, is rs1).
func vfWaOperands(ctx *_OpContextType, arg *abi.AsArgument, hasBase bool) vfOperands {
	var o vfOperands
	add := func(r abi.RegType) {
		o.regs[o.nregs] = int(r) - int(REG_X0)
		o.nregs++
	}
	m := ctx.ArgMarks
	if m&_ARG_RD != 0 || (m&_ARG_RD_IS_X != 0) {
		if arg.Rd == 0 {
			add(REG_X0)
		} else {
			add(arg.Rd)
		}
	}
	if m&_ARG_RS1 != 0 {
		if hasBase {
			o.base, o.hasBase = int(arg.Rs1)-int(REG_X0), true
		} else {
			add(arg.Rs1)
		}
	}
	if m&_ARG_RS2 != 0 {
		add(arg.Rs2)
	}
	if m&_ARG_RS3 != 0 {
		add(arg.Rs3)
	}
	if m&_ARG_IMM != 0 {
		o.imm = int64(arg.Imm)
		o.nimm = 1
	}
	return o
}

func vfSameRegs(a, b vfOperands) bool {
	if a.nregs != b.nregs || a.hasBase != b.hasBase {
		return false
	}
	for i := 0; i < a.nregs; i++ {
		if a.regs[i] != b.regs[i] {
			return false
		}
	}
	return !a.hasBase || a.base == b.base
}

func VfH_enc() {
	l := vfEncList(false)
	k := vfCase()
	as := l[k/2]
	xlen := 32 + 32*(k%2)
	name := AsString(as, "")
	if xlen == 32 {
		vfNote("case:" + name + "/rv32")
	} else {
		vfNote("case:" + name + "/rv64")
	}
	ctx := &_AOpContextTable[as]
	arg := &abi.AsArgument{
		Rd:  abi.RegType(vfI16("rd")),
		Rs1: abi.RegType(vfI16("rs1")),
		Rs2: abi.RegType(vfI16("rs2")),
		Rs3: abi.RegType(vfI16("rs3")),
		Imm: vfI32("imm"),
	}
	var x uint32
	var err error
	p := vfCatch(func() {
		if xlen == 32 {
			x, err = EncodeRV32(as, arg)
		} else {
			x, err = EncodeRV64(as, arg)
		}
	})
	accepted := !p && err == nil
	vfObserve("accepted", vfB2U(accepted))
	if !accepted {
		return
	}
	vfObserve("word", uint64(x))

	// (1) independent disassembler
	buf := []byte{byte(x), byte(x >> 8), byte(x >> 16), byte(x >> 24)}
	inst, derr := riscv64asm.Decode(buf)
	if !vfSymbolic() {
		vfLog("xarch: " + inst.String())
		if a2, g2, _, e2 := DecodeEx(x); e2 == nil {
			vfLog("wa: " + AsmSyntax(a2, "", g2))
		}
	}
	vfAssert(derr == nil, "enc/xarch-decodes")
	if derr == nil {
		vfAssert(vfNorm(inst.Op.String()) == vfNorm(name), "enc/xarch-same-op")
		xo := vfXarchOperands(inst)
		wo := vfWaOperands(ctx, arg, xo.hasBase)
		if as == AFENCE {
			// fence: the disassembler shows pred,succ (imm[7:4], imm[3:0]); rd/rs1 are
			// reserved fields it does not show, so only x0 there is "the same operands";
			// fm (imm[11:8]) is not shown either.
			pred, okp := inst.Args[0].(riscv64asm.MemOrder)
			succ, oks := inst.Args[1].(riscv64asm.MemOrder)
			vfAssert(okp && oks && arg.Rd == REG_X0 && arg.Rs1 == REG_X0, "enc/xarch-same-registers")
			vfAssert(okp && oks && uint32(arg.Imm) == uint32(pred)<<4|uint32(succ), "enc/xarch-same-immediate")
		} else if xo.hasCSR {
			// Zicsr: Wa passes the CSR number as Imm (taken modulo 2^12) and, for the
			// immediate forms, the 5-bit zimm as register number of Rs1.
			if xo.nimm == 1 {
				vfAssert(xo.nregs == 1 && wo.nregs == 2 && xo.regs[0] == wo.regs[0] && int64(wo.regs[1]) == xo.imm, "enc/xarch-same-registers")
			} else {
				vfAssert(vfSameRegs(xo, wo), "enc/xarch-same-registers")
			}
			vfAssert(wo.nimm == 1 && uint32(wo.imm)&0xfff == uint32(xo.csr), "enc/xarch-same-immediate")
		} else if ctx.Opcode.FormatType() == _U {
			vfAssert(vfSameRegs(xo, wo), "enc/xarch-same-registers")
			// lui/auipc: the disassembler shows the 20-bit field
			vfAssert(xo.nimm == 1 && uint32(xo.imm) == uint32(wo.imm)&0xfffff, "enc/xarch-same-immediate")
		} else {
			vfAssert(vfSameRegs(xo, wo), "enc/xarch-same-registers")
			vfAssert(xo.nimm == wo.nimm && (wo.nimm == 0 || xo.imm == wo.imm), "enc/xarch-same-immediate")
		}
	}

	// (2) Wa's own decoder returns the original instruction
	var as2 abi.As
	var arg2 *abi.AsArgument
	var err2 error
	p2 := vfCatch(func() { as2, arg2, _, err2 = DecodeEx(x) })
	vfAssert(!p2 && err2 == nil && arg2 != nil, "enc/wa-decoder-accepts")
	if !p2 && err2 == nil && arg2 != nil {
		vfAssert(as2 == as, "enc/wa-decoder-same-op")
		rd := arg.Rd
		if ctx.ArgMarks&_ARG_RD_IS_X != 0 && rd == 0 {
			rd = REG_X0 // documented canonicalisation: omitted rd means x0
		}
		m := ctx.ArgMarks
		okRegs := true
		if m&(_ARG_RD|_ARG_RD_IS_X) != 0 && arg2.Rd != rd {
			okRegs = false
		}
		if m&_ARG_RS1 != 0 && arg2.Rs1 != arg.Rs1 {
			okRegs = false
		}
		if m&_ARG_RS2 != 0 && arg2.Rs2 != arg.Rs2 {
			okRegs = false
		}
		if m&_ARG_RS3 != 0 && arg2.Rs3 != arg.Rs3 {
			okRegs = false
		}
		vfAssert(okRegs, "enc/wa-decoder-same-registers")
		if ctx.Opcode.FormatType() == _U {
			// lui/auipc carry a 20-bit field: -1 and 0xfffff are the same instruction
			vfAssert(uint32(arg2.Imm)&0xfffff == uint32(arg.Imm)&0xfffff, "enc/wa-decoder-same-immediate")
		} else {
			vfAssert(m&_ARG_IMM == 0 || arg2.Imm == arg.Imm, "enc/wa-decoder-same-immediate")
		}
	}
}

// vfPseudoBase: the base instruction each pseudo-instruction stands for, from
// the RISC-V assembly programmer's manual (the table's own PseudoAs column is
// what is under test, so it is only the fallback for mnemonics not listed here).
func vfPseudoBase(as, fallback abi.As) abi.As {
	switch as {
	case A_NOP, A_MV:
		return AADDI
	case A_NOT:
		return AXORI
	case A_NEG:
		return ASUB
	case A_NEGW:
		return ASUBW
	case A_SEXT_W:
		return AADDIW
	case A_SEQZ:
		return ASLTIU
	case A_SNEZ:
		return ASLTU
	case A_SLTZ, A_SGTZ:
		return ASLT
	case A_FMV_S:
		return AFSGNJ_S
	case A_FABS_S:
		return AFSGNJX_S
	case A_FNEG_S:
		return AFSGNJN_S
	case A_FMV_D:
		return AFSGNJ_D
	case A_FABS_D:
		return AFSGNJX_D
	case A_FNEG_D:
		return AFSGNJN_D
	case A_BEQZ:
		return ABEQ
	case A_BNEZ:
		return ABNE
	case A_BLEZ, A_BGEZ, A_BLE:
		return ABGE
	case A_BLTZ, A_BGTZ, A_BGT:
		return ABLT
	case A_BGTU:
		return ABLTU
	case A_BLEU:
		return ABGEU
	case A_J:
		return AJAL
	case A_JR, A_RET:
		return AJALR
	case A_RDINSTRET, A_RDCYCLE, A_RDTIME, A_CSRR, A_CSRS, A_FRCSR, A_FRRM, A_FRFLAGS:
		return ACSRRS
	case A_CSRW, A_FSCSR, A_FSRM, A_FSFLAGS:
		return ACSRRW
	case A_CSRC:
		return ACSRRC
	case A_CSRWI:
		return ACSRRWI
	case A_CSRSI:
		return ACSRRSI
	case A_CSRCI:
		return ACSRRCI
	}
	return fallback
}

func VfN_pseudo() int { return len(vfEncList(true)) }

// Pseudo-instructions: whatever EncodeRV64 accepts must disassemble to the
// base instruction the pseudo-instruction stands for.
func VfH_pseudo() {
	l := vfEncList(true)
	as := l[vfCase()]
	vfNote("case:" + AsString(as, ""))
	ctx := &_AOpContextTable[as]
	arg := &abi.AsArgument{
		Rd:  abi.RegType(vfI16("rd")),
		Rs1: abi.RegType(vfI16("rs1")),
		Rs2: abi.RegType(vfI16("rs2")),
		Rs3: abi.RegType(vfI16("rs3")),
		Imm: vfI32("imm"),
	}
	var x uint32
	var err error
	p := vfCatch(func() { x, err = EncodeRV64(as, arg) })
	accepted := !p && err == nil
	vfObserve("accepted", vfB2U(accepted))
	if !accepted {
		vfNote("pseudo-not-accepted")
		return
	}
	buf := []byte{byte(x), byte(x >> 8), byte(x >> 16), byte(x >> 24)}
	inst, derr := riscv64asm.Decode(buf)
	if !vfSymbolic() {
		vfLog("xarch: " + inst.String() + " base: " + AsString(vfPseudoBase(as, ctx.PseudoAs), ""))
	}
	vfAssert(derr == nil, "pseudo/xarch-decodes")
	if derr == nil {
		vfAssert(vfNorm(inst.Op.String()) == vfNorm(AsString(vfPseudoBase(as, ctx.PseudoAs), "")), "pseudo/xarch-decodes-to-base-op")
	}
}
