//go:build verif

package pcrel

// C18 — PC-relative hi/lo splitting is exact.

func init() {
	vfRegistry["VfH_split"] = VfH_split
	vfRegistry["VfH_abs"] = VfH_abs
	vfRegistry["VfH_pcrel"] = VfH_pcrel
	vfRegistry["VfH_la64"] = VfH_la64
}

// sext20 interprets the low 20 bits of hi as a signed 20-bit field, which is
// what auipc/lui do with their U-type immediate.
func vfSext20(hi int32) int32 { return (hi << 12) >> 12 }

// VfH_split: every 32-bit offset; lo in [-2048,2047]; recombination as the
// auipc/addi pair does it (32-bit arithmetic, hi taken as the 20-bit field).
func VfH_split() {
	delta := vfI32("delta")
	hi, lo := SplitOffset(delta)
	vfObserve("hi", uint64(uint32(hi)))
	vfObserve("lo", uint64(uint32(lo)))
	vfAssert(lo >= -2048 && lo <= 2047, "split/lo-range")
	vfAssert((vfSext20(hi)<<12)+lo == delta, "split/recombine-auipc-addi")
	vfAssert(CombineOffset(hi, lo) == delta, "split/CombineOffset")
	// diagnostic: hi fits the signed 20-bit U-type immediate as a value
	vfDiag(hi >= -(1<<19) && hi < (1<<19), "split/hi-fits-si20")
	// diagnostic: RV64 reading, auipc sign-extends (hi<<12) to 64 bits
	vfDiag(int64(vfSext20(hi)<<12)+int64(lo) == int64(delta), "split/rv64-reading")
}

func VfH_abs() {
	t := vfU32("target")
	hi, lo := MakeAbs(t)
	vfObserve("hi", uint64(uint32(hi)))
	vfObserve("lo", uint64(uint32(lo)))
	vfAssert(lo >= -2048 && lo <= 2047, "abs/lo-range")
	vfAssert(uint32((vfSext20(hi)<<12)+lo) == t, "abs/lui-addi-recombine")
}

func VfH_pcrel() {
	t := vfI64("target")
	pc := vfI64("pc")
	d := t - pc
	vfAssume(d >= -(1<<31) && d < (1<<31))
	vfAssume(pc >= 0 && pc < (1<<32) && t >= 0 && t < (1<<32))
	hi, lo := MakePCRel(t, pc)
	vfObserve("hi", uint64(uint32(hi)))
	vfObserve("lo", uint64(uint32(lo)))
	vfAssert(lo >= -2048 && lo <= 2047, "pcrel/lo-range")
	vfAssert(GetTargetAddress(uint32(pc), hi, lo) == uint32(t), "pcrel/GetTargetAddress-roundtrip")
	vfAssert(uint32(pc)+uint32((vfSext20(hi)<<12)+lo) == uint32(t), "pcrel/auipc-addi")
}

// LoongArch CPU semantics of the pair (reference, LoongArch manual vol.1):
//   pcalau12i rd, si20 : rd = (pc + SignExtend({si20, 12'b0}, 64)) with low 12 bits cleared
//   addi.d / ld.d      : + SignExtend(si12, 64)
func vfLa64CPU(pc int64, hi20, lo12 int32) int64 {
	si20 := int64((hi20 << 12) >> 12) // the encoder keeps the low 20 bits
	si12 := int64((lo12 << 20) >> 20) // the encoder keeps the low 12 bits
	page := (pc + (si20 << 12)) &^ 0xFFF
	return page + si12
}

func VfH_la64() {
	pc := vfI64("pc")
	t := vfI64("target")
	page := pc &^ 0xFFF
	d := t - page
	hi, lo := MakeLa64PCRel(t, pc)
	vfObserve("hi", uint64(uint32(hi)))
	vfObserve("lo", uint64(uint32(lo)))
	k := vfChoice("range", 3)
	switch k {
	case 0:
		// the part of "within ±2GiB of the PC page" that a (hi20, lo12) pair can reach
		vfAssume(d >= -(1<<31) && d <= (1<<31)-2049)
		vfAssume(t-page == d) // no wrap-around of the subtraction
		vfAssume((d >= 0) == (t >= page))
		vfAssert(vfLa64CPU(pc, hi, lo) == t, "la64/cpu-computes-target")
		vfAssert(hi >= 0 && hi <= 0xFFFFF, "la64/hi-is-20-bit-field")
		vfAssert(lo >= 0 && lo <= 0xFFF, "la64/lo-is-12-bit-field")
	case 1:
		// diagnostic: the helper GetTargetAddressLa64 is not the CPU
		vfAssume(d >= -(1<<31) && d <= (1<<31)-2049)
		vfAssume((d >= 0) == (t >= page))
		vfDiag(GetTargetAddressLa64(pc, hi, lo) == t, "la64/helper-GetTargetAddressLa64-agrees")
	case 2:
		// diagnostic: extra slice below -2GiB that the pair happens to reach
		vfAssume(d >= -(1<<31)-2048 && d < -(1<<31))
		vfAssume((d >= 0) == (t >= page))
		vfDiag(vfLa64CPU(pc, hi, lo) != t, "la64/extra-slice-also-reached")
	}
}
