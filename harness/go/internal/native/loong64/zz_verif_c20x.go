//go:build verif

package loong64

// Exported for the C20 harness in internal/native/wemu/loong64: the opcode
// pattern of a mnemonic from the encoder table (validated against x/arch by C17).
func VfPattern(name string) (mask, value uint32, ok bool) {
	for as := 1; as < len(_AOpContextTable) && as < int(ALAST); as++ {
		if _AOpContextTable[as].mask != 0 && AsString(_AOpContextTable[as].op, "") == name {
			return _AOpContextTable[as].mask, _AOpContextTable[as].value, true
		}
	}
	return 0, 0, false
}
