//go:build verif

package loong64

import (
	"wa-lang.org/wa/internal/native/abi"
	"wa-lang.org/wa/internal/zzverif/loong64asm"
)

// C17 — LoongArch64 encoder vs the independent x/arch disassembler and vs Wa's own decoder.

func init() {
	vfRegistry["VfH_enc"] = VfH_enc
}

func vfEncList() []abi.As {
	var l []abi.As
	for as := 1; as < len(_AOpContextTable) && as < int(ALAST); as++ {
		if _AOpContextTable[as].mask != 0 {
			l = append(l, abi.As(as))
		}
	}
	return l
}

func VfN_enc() int { return len(vfEncList()) }

func vfNorm(s string) string {
	b := make([]byte, len(s))
	for i := 0; i < len(s); i++ {
		c := s[i]
		if c >= 'a' && c <= 'z' {
			c -= 'a' - 'A'
		}
		if c == '.' {
			c = '_'
		}
		b[i] = c
	}
	return string(b)
}

const (
	vfKR = iota + 1
	vfKF
	vfKFCSR
	vfKFCC
	vfKImm
)

type vfOpList struct {
	kind [6]int
	val  [6]int64
	n    int
}

func (l *vfOpList) add(kind int, v int64) {
	if l.n < len(l.kind) {
		l.kind[l.n], l.val[l.n] = kind, v
	}
	l.n++
}

func vfSame(a, b *vfOpList) bool {
	if a.n != b.n || a.n > len(a.kind) {
		return false
	}
	for i := 0; i < a.n; i++ {
		if a.kind[i] != b.kind[i] || a.val[i] != b.val[i] {
			return false
		}
	}
	return true
}

func vfXarchOperands(inst loong64asm.Inst) vfOpList {
	var o vfOpList
	for _, a := range inst.Args {
		if a == nil {
			break
		}
		switch v := a.(type) {
		case loong64asm.Reg:
			if v < loong64asm.F0 {
				o.add(vfKR, int64(v-loong64asm.R0))
			} else {
				o.add(vfKF, int64(v-loong64asm.F0))
			}
		case loong64asm.Fcsr:
			o.add(vfKFCSR, int64(v))
		case loong64asm.Fcc:
			o.add(vfKFCC, int64(v))
		case loong64asm.Uimm:
			o.add(vfKImm, int64(v.Imm))
		case loong64asm.Simm16:
			o.add(vfKImm, int64(v.Imm))
		case loong64asm.Simm32:
			o.add(vfKImm, int64(v.Imm))
		case loong64asm.OffsetSimm:
			o.add(vfKImm, int64(v.Imm))
		case loong64asm.SaSimm:
			o.add(vfKImm, int64(v))
		case loong64asm.CodeSimm:
			o.add(vfKImm, int64(v))
		default:
			o.add(99, 0)
		}
	}
	return o
}

// vfWaOperands: the operand list, in LoongArch assembly order, that Wa's
// argument denotes for each encoder format.
func vfWaOperands(f OpFormatType, a *abi.AsArgument) vfOpList {
	var o vfOpList
	R := func(r abi.RegType) { o.add(vfKR, int64(r)-int64(REG_R0)) }
	F := func(r abi.RegType) { o.add(vfKF, int64(r)-int64(REG_F0)) }
	CS := func(r abi.RegType) { o.add(vfKFCSR, int64(r)-int64(REG_FCSR0)) }
	CC := func(r abi.RegType) { o.add(vfKFCC, int64(r)-int64(REG_FCC0)) }
	I := func(v int64) { o.add(vfKImm, v) }
	imm := int64(a.Imm)
	switch f {
	case OpFormatType_NULL:
	case OpFormatType_2R:
		R(a.Rd); R(a.Rs1)
	case OpFormatType_2F:
		F(a.Rd); F(a.Rs1)
	case OpFormatType_1F_1R:
		F(a.Rd); R(a.Rs1)
	case OpFormatType_1R_1F:
		R(a.Rd); F(a.Rs1)
	case OpFormatType_3R:
		R(a.Rd); R(a.Rs1); R(a.Rs2)
	case OpFormatType_3F:
		F(a.Rd); F(a.Rs1); F(a.Rs2)
	case OpFormatType_1F_2R:
		F(a.Rd); R(a.Rs1); R(a.Rs2)
	case OpFormatType_4F:
		F(a.Rd); F(a.Rs1); F(a.Rs2); F(a.Rs3)
	case OpFormatType_2R_ui5, OpFormatType_2R_ui6, OpFormatType_2R_si12, OpFormatType_2R_ui12, OpFormatType_2R_si14:
		R(a.Rd); R(a.Rs1); I(imm)
	case OpFormatType_1F_1R_si12:
		F(a.Rd); R(a.Rs1); I(imm)
	case OpFormatType_1R_si20:
		R(a.Rd); I(imm)
	case OpFormatType_0_2R:
		R(a.Rs1); R(a.Rs2)
	case OpFormatType_3R_sa2, OpFormatType_3R_sa3:
		R(a.Rd); R(a.Rs1); R(a.Rs2); I(imm)
	case OpFormatType_code, OpFormatType_level, OpFormatType_hint, OpFormatType_offset:
		I(imm)
	case OpFormatType_code_1R_si12, OpFormatType_hint_1R_si12:
		I(int64(a.Rd)); R(a.Rs1); I(imm)
	case OpFormatType_2R_msbw_lsbw, OpFormatType_2R_msbd_lsbd:
		R(a.Rd); R(a.Rs1); I(int64(a.Rs2)); I(int64(a.Rs3))
	case OpFormatType_fcsr_1R:
		CS(a.Rd); R(a.Rs1)
	case OpFormatType_1R_fcsr:
		R(a.Rd); CS(a.Rs1)
	case OpFormatType_cd_1R:
		CC(a.Rd); R(a.Rs1)
	case OpFormatType_cd_1F:
		CC(a.Rd); F(a.Rs1)
	case OpFormatType_cd_2F:
		CC(a.Rd); F(a.Rs1); F(a.Rs2)
	case OpFormatType_1R_cj:
		R(a.Rd); CC(a.Rs1)
	case OpFormatType_1F_cj:
		F(a.Rd); CC(a.Rs1)
	case OpFormatType_1R_csr:
		R(a.Rd); I(imm)
	case OpFormatType_2R_csr, OpFormatType_2R_level:
		R(a.Rd); R(a.Rs1); I(imm)
	case OpFormatType_0_1R_seq:
		R(a.Rs1); I(imm)
	case OpFormatType_op_2R, OpFormatType_hint_2R:
		I(int64(a.Rd)); R(a.Rs1); R(a.Rs2)
	case OpFormatType_3F_ca:
		F(a.Rd); F(a.Rs1); F(a.Rs2); o.add(vfKFCC, imm) // the condition flag number travels in Imm
	case OpFormatType_cj_offset:
		CC(a.Rs1); I(imm)
	case OpFormatType_rj_offset:
		R(a.Rs1); I(imm)
	case OpFormatType_rj_rd_offset:
		R(a.Rs1); R(a.Rd); I(imm)
	case OpFormatType_rd_rj_offset:
		R(a.Rd); R(a.Rs1); I(imm)
	default:
		o.add(98, 0)
	}
	return o
}

// vfXarchNormalise maps the disassembler's GNU-assembler presentation onto the
// encoder's operand convention (documented differences, not findings):
//   - AM* atomics and sc.q are written `rd, rk, rj` in GNU syntax; Wa's Rs1 is rj, Rs2 is rk;
//   - alsl.{w,wu,d} show the shift amount as sa2+1; Wa passes the raw field (wat2la: "alsl.d ..., 2 # <<(2+1)");
//   - ldptr/stptr/ll/sc show the byte offset si14<<2; Wa passes the raw si14.
func vfXarchNormalise(name string, f OpFormatType, o *vfOpList) {
	if f == OpFormatType_3R && len(name) > 2 && (name[:2] == "am" || name == "sc.q") && o.n == 3 {
		o.kind[1], o.kind[2] = o.kind[2], o.kind[1]
		o.val[1], o.val[2] = o.val[2], o.val[1]
	}
	if f == OpFormatType_3R_sa2 && len(name) > 4 && name[:4] == "alsl" && o.n == 4 {
		o.val[3]--
	}
	if f == OpFormatType_2R_si14 && o.n == 3 && name != "addu16i.d" {
		if o.val[2]%4 == 0 {
			o.val[2] /= 4
		} else {
			o.kind[2] = 97
		}
	}
}

func vfRelaxedZone(f OpFormatType, imm int32) bool {
	switch f {
	case OpFormatType_2R_si12, OpFormatType_1F_1R_si12, OpFormatType_code_1R_si12, OpFormatType_hint_1R_si12:
		return imm >= 1<<11
	case OpFormatType_2R_si14:
		return imm >= 1<<13
	case OpFormatType_1R_si20:
		return imm >= 1<<19
	}
	return false
}

func VfH_enc() {
	l := vfEncList()
	as := l[vfCase()]
	name := AsString(as, "")
	vfNote("case:" + name)
	ctx := &_AOpContextTable[as]
	arg := &abi.AsArgument{
		Rd:  abi.RegType(vfI16("rd")),
		Rs1: abi.RegType(vfI16("rs1")),
		Rs2: abi.RegType(vfI16("rs2")),
		Rs3: abi.RegType(vfI16("rs3")),
		Imm: vfI32("imm"),
	}
	var x uint32
	var err error
	p := vfCatch(func() { x, err = EncodeLA64(as, arg) })
	accepted := !p && err == nil
	vfObserve("accepted", vfB2U(accepted))
	if !accepted {
		return
	}
	vfObserve("word", uint64(x))
	wo := vfWaOperands(ctx.fmt, arg)
	// The encoder deliberately accepts signed immediates up to the unsigned
	// maximum of the field ("可以放宽到无符号", for %pc_lo12-style operands); those
	// words read back negative. That zone gets its own assertion labels so that a
	// known finding about it cannot mask the ordinary signed range.
	zone := ""
	if vfRelaxedZone(ctx.fmt, arg.Imm) {
		zone = "@relaxed-unsigned-imm"
	}

	// (1) independent disassembler
	buf := []byte{byte(x), byte(x >> 8), byte(x >> 16), byte(x >> 24)}
	inst, derr := loong64asm.Decode(buf)
	if !vfSymbolic() {
		vfLog("xarch: " + inst.String())
		if a2, g2, _, e2 := DecodeEx(x); e2 == nil {
			vfLog("wa: " + AsmSyntax(a2, "", g2))
		}
	}
	vfAssert(derr == nil, "enc/xarch-decodes")
	if derr == nil {
		vfAssert(vfNorm(inst.Op.String()) == vfNorm(name), "enc/xarch-same-op")
		xo := vfXarchOperands(inst)
		vfXarchNormalise(name, ctx.fmt, &xo)
		if zone == "" {
			vfAssert(vfSame(&xo, &wo), "enc/xarch-same-operands")
		} else {
			vfAssert(vfSame(&xo, &wo), "enc/xarch-same-operands"+zone)
		}
	}

	// (2) Wa's own decoder returns the original instruction
	var as2 abi.As
	var arg2 *abi.AsArgument
	var err2 error
	p2 := vfCatch(func() { as2, arg2, _, err2 = DecodeEx(x) })
	vfAssert(!p2 && err2 == nil && arg2 != nil, "enc/wa-decoder-accepts")
	if !p2 && err2 == nil && arg2 != nil {
		vfAssert(as2 == as, "enc/wa-decoder-same-op")
		if as2 == as {
			wo2 := vfWaOperands(ctx.fmt, arg2)
			if zone == "" {
				vfAssert(vfSame(&wo, &wo2), "enc/wa-decoder-same-operands")
			} else {
				vfAssert(vfSame(&wo, &wo2), "enc/wa-decoder-same-operands"+zone)
			}
		}
	}
}
