//go:build verif

package buildtag

// C24 — build-tag expressions evaluate with Boolean semantics.
//
// The line is "#wa:build " followed by n symbolic bytes over the alphabet
// { ' ', '(', ')', '!', '&', '|', 'a', 'b', 'c' } (VfH_expr) or n arbitrary
// bytes (VfH_anybytes: no panic, rejection of what the reference rejects).
// The reference is an independent precedence-climbing evaluator working on
// the bytes directly (no AST): || < && < !, parentheses, no "!!".

func init() {
	vfRegistry["VfH_expr"] = VfH_expr
	vfRegistry["VfH_anybytes"] = VfH_anybytes
	vfRegistry["VfH_split"] = VfH_split
	vfRegistry["VfH_tokens"] = VfH_tokens
}

// ----- reference -----

type vfRef struct {
	s      []byte
	i      int
	bad    bool
	assign uint16
}

func vfTagHash(s []byte) uint {
	h := uint(0)
	for i, c := range s {
		h += uint(i+1) * uint(c-'a'+1)
	}
	return h % 16
}

func vfIsTagByte(c byte) bool {
	return c >= 'a' && c <= 'z' || c >= 'A' && c <= 'Z' || c >= '0' && c <= '9' || c == '_' || c == '.'
}

func (r *vfRef) skip() {
	for r.i < len(r.s) && (r.s[r.i] == ' ' || r.s[r.i] == '\t') {
		r.i++
	}
}

func (r *vfRef) peek2(c byte) bool {
	r.skip()
	return r.i+1 < len(r.s) && r.s[r.i] == c && r.s[r.i+1] == c
}

func (r *vfRef) or() bool {
	v := r.and()
	for !r.bad && r.peek2('|') {
		r.i += 2
		w := r.and()
		v = v || w
	}
	return v
}

func (r *vfRef) and() bool {
	v := r.not()
	for !r.bad && r.peek2('&') {
		r.i += 2
		w := r.not()
		v = v && w
	}
	return v
}

func (r *vfRef) not() bool {
	r.skip()
	if r.i < len(r.s) && r.s[r.i] == '!' {
		r.i++
		r.skip()
		if r.i < len(r.s) && r.s[r.i] == '!' {
			r.bad = true
			return false
		}
		return !r.atom()
	}
	return r.atom()
}

func (r *vfRef) atom() bool {
	r.skip()
	if r.bad || r.i >= len(r.s) {
		r.bad = true
		return false
	}
	if r.s[r.i] == '(' {
		r.i++
		v := r.or()
		r.skip()
		if r.bad || r.i >= len(r.s) || r.s[r.i] != ')' {
			r.bad = true
			return false
		}
		r.i++
		return v
	}
	j := r.i
	for j < len(r.s) && vfIsTagByte(r.s[j]) {
		j++
	}
	if j == r.i {
		r.bad = true
		return false
	}
	h := vfTagHash(r.s[r.i:j])
	r.i = j
	return r.assign>>h&1 == 1
}

// vfRefEval: (accepted, value) of the expression text under the assignment.
func vfRefEval(s []byte, assign uint16) (bool, bool) {
	r := &vfRef{s: s, assign: assign}
	v := r.or()
	r.skip()
	if r.bad || r.i != len(r.s) {
		return false, false
	}
	return true, v
}

// Cases: n = 0 (1 case); n = 1..4 with the first byte fixed (9 cases each);
// n = 5, 6 with the first two bytes fixed (81 cases each). Fixing a prefix
// only splits the work into parallel tasks; together the cases of one n cover
// every string of that length over the alphabet.
const vfAlpha = " ()!&|abc"

func VfN_expr() int { return 1 + 9*4 + 81*2 }

func vfExprCase(k int) (n int, fixed string) {
	if k == 0 {
		return 0, ""
	}
	k--
	if k < 36 {
		return k/9 + 1, vfAlpha[k%9 : k%9+1]
	}
	k -= 36
	return 5 + k/81, string([]byte{vfAlpha[k%81/9], vfAlpha[k%9]})
}

func vfAlphabet(b byte) bool {
	return b == ' ' || b == '(' || b == ')' || b == '!' || b == '&' || b == '|' || b == 'a' || b == 'b' || b == 'c'
}

func VfH_expr() {
	n, fixed := vfExprCase(vfCase())
	bs := vfBytes("s", n)
	for i, b := range bs {
		if i < len(fixed) {
			vfAssume(b == fixed[i])
		} else {
			vfAssume(vfAlphabet(b))
		}
	}
	if vfSymbolic() {
		vfNote("case:n=" + string(rune('0'+n)) + ",prefix=" + fixed)
	}
	assign := vfU16("assign")
	okf := func(tag string) bool { return assign>>vfTagHash([]byte(tag))&1 == 1 }

	line := "#wa:build " + string(bs)
	var x Expr
	var err error
	p := vfCatch(func() { x, err = Parse(line) })
	vfAssert(!p, "expr/parse-no-panic")
	if p {
		return
	}
	racc, rval := vfRefEval(bs, assign)
	acc := err == nil && x != nil
	vfObserve("accepted", vfB2U(acc))
	vfAssert(acc == racc, "expr/accepts-iff-wellformed")
	if !acc || !racc {
		return
	}
	val := x.Eval(okf)
	vfObserve("value", vfB2U(val))
	vfAssert(val == rval, "expr/eval-equals-boolean-formula")

	// print and parse again: equivalent expression
	var y Expr
	var err2 error
	p2 := vfCatch(func() { y, err2 = Parse("#wa:build " + x.String()) })
	vfAssert(!p2 && err2 == nil && y != nil, "expr/printed-form-parses")
	if !p2 && err2 == nil && y != nil {
		vfAssert(y.Eval(okf) == val, "expr/printed-form-equivalent")
	}
}

func VfN_anybytes() int { return 4 } // case k: k arbitrary bytes

// Arbitrary bytes: Parse never panics, and never accepts what the reference rejects
// (non-ASCII letters/digits are legal tag characters for the parser and outside the
// reference's tag alphabet, so only the implication parser-accepts => bytes-are-wellformed
// is checked for ASCII inputs).
func VfH_anybytes() {
	n := vfCase()
	bs := vfBytes("s", n)
	line := "#wa:build " + string(bs)
	var x Expr
	var err error
	p := vfCatch(func() { x, err = Parse(line) })
	vfAssert(!p, "any/parse-no-panic")
	if p {
		return
	}
	ascii := true
	for _, b := range bs {
		if b >= 0x80 || b == '\n' || b == '\r' || b == '\v' || b == '\f' {
			ascii = false
		}
	}
	acc := err == nil && x != nil
	vfObserve("accepted", vfB2U(acc))
	if ascii {
		racc, _ := vfRefEval(bs, 0)
		vfAssert(acc == racc, "any/ascii-accepts-iff-wellformed")
	}
	vfAssert(err != nil || x != nil, "any/error-or-expression")
}

func VfN_split() int { return 4 }

// splitWaBuild / IsWaBuild: a line is a constraint iff it is "#wa:build" alone or
// followed by white space; "#wa:buildx" is not; several lines are not.
func VfH_split() {
	n := vfCase()
	bs := vfBytes("t", n)
	line := "#wa:build" + string(bs)
	got := IsWaBuild(line)
	vfObserve("is", vfB2U(got))
	multi := false
	for i, b := range bs {
		if b == '\n' && i != len(bs)-1 {
			multi = true
		}
	}
	for _, b := range bs {
		vfAssume(b < 0x80) // unicode white space outside ASCII is outside this harness
	}
	isSpace := func(b byte) bool { return b == ' ' || b == '\t' || b == '\n' || b == '\v' || b == '\f' || b == '\r' }
	want := !multi && (n == 0 || isSpace(bs[0]))
	vfAssert(got == want, "split/is-constraint-iff-prefix-then-space")
}

// ----- token-level harness -----
// The constraint is a sequence of L tokens over {a b ( ) ! && ||}: the token
// sequence is enumerated (concrete execution, one path per sequence), the tag
// assignment stays symbolic, so each path's solver query covers all 2^16
// assignments. Reaches expressions of 7 tokens such as "(a||b)&&a" or
// "a&&b&&a" that the byte-level harness cannot reach within its length bound.
var vfToks = [7]string{"a", "b", "(", ")", "!", "&&", "||"}

const vfTokMax = 7

// Case k: L = number of tokens, first two tokens fixed (parallel tasks).
// L=1: 7 cases; L>=2: 49 cases each.
func VfN_tokens() int { return 7 + 49*(vfTokMax-1) }

func vfTokCase(k int) (L, t0, t1 int) {
	if k < 7 {
		return 1, k, 0
	}
	k -= 7
	return 2 + k/49, k % 49 / 7, k % 7
}

var vfTokNames = [vfTokMax]string{"t0", "t1", "t2", "t3", "t4", "t5", "t6"}

func VfH_tokens() {
	L, t0, t1 := vfTokCase(vfCase())
	text := vfToks[t0]
	if L >= 2 {
		text += vfToks[t1]
	}
	for i := 2; i < L; i++ {
		text += vfToks[vfChoice(vfTokNames[i], 7)]
	}
	if vfSymbolic() {
		vfNote("case:L=" + string(rune('0'+L)) + ",prefix=" + vfToks[t0] + vfToks[t1])
	}
	assign := vfU16("assign")
	okf := func(tag string) bool { return assign>>vfTagHash([]byte(tag))&1 == 1 }
	var x Expr
	var err error
	p := vfCatch(func() { x, err = Parse("#wa:build " + text) })
	vfAssert(!p, "tok/parse-no-panic")
	if p {
		return
	}
	racc, rval := vfRefEval([]byte(text), assign)
	acc := err == nil && x != nil
	vfAssert(acc == racc, "tok/accepts-iff-wellformed")
	if !acc || !racc {
		return
	}
	val := x.Eval(okf)
	vfObserve("value", vfB2U(val))
	vfAssert(val == rval, "tok/eval-equals-boolean-formula")
	var y Expr
	var err2 error
	p2 := vfCatch(func() { y, err2 = Parse("#wa:build " + x.String()) })
	vfAssert(!p2 && err2 == nil && y != nil, "tok/printed-form-parses")
	if !p2 && err2 == nil && y != nil {
		vfAssert(y.Eval(okf) == val, "tok/printed-form-equivalent")
	}
}
