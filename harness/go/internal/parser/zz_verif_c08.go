//go:build verif

package parser

import (
	"wa-lang.org/wa/internal/token"
)

// C08 — the Wa and Wz parsers return (an error or a tree) on token skeletons: every keyword and operator
// of the token table placed at top level, at statement position, at expression position and between two
// operands, in the English (.wa) and Chinese (.wz) surface syntax, followed by one arbitrary byte.
// They must not panic and must terminate within the step budget the driver sets.

func init() {
	vfRegistry["VfH_parse_tok"] = VfH_parse_tok
	vfRegistry["VfH_parse_tok_more"] = VfH_parse_tok_more
}

var vfToks = func() []string {
	var out []string
	for t := token.Token(0); t < 400; t++ {
		if t.IsOperator() || t.IsKeyword() || t.IsWzKeyword() {
			out = append(out, t.String())
		}
	}
	return out
}()

// position templates: {file name, text before, text after}
var vfPos = [][3]string{
	{"a.wa", "", "\n"},
	{"a.wa", "func main {\n\t", "\n}\n"},
	{"a.wz", "", "\n"},
	{"a.wz", "函数·主控:\n\t", "\n完毕\n"},
	// VfH_parse_tok_more
	{"a.wa", "func main {\n\tx := ", "\n}\n"},
	{"a.wa", "func main {\n\tx = y ", " z\n}\n"},
	{"a.wz", "函数·主控:\n\t甲 := ", "\n完毕\n"},
	{"a.wz", "函数·主控:\n\t甲 = 乙 ", " 丙\n完毕\n"},
}

func VfN_parse_tok() int      { return len(vfToks) * 4 }
func VfN_parse_tok_more() int { return len(vfToks) * 4 }

func VfH_parse_tok()      { vfParseTok(0) }
func VfH_parse_tok_more() { vfParseTok(4) }

func vfParseTok(base int) {
	k := vfCase()
	tok, pos := vfToks[k/4], vfPos[base+k%4]
	vfNote("case:" + pos[0] + "/" + tok)
	b := vfBytes("b", 1)
	src := append(append([]byte(pos[1]+tok), b[0]), pos[2]...)
	p := vfCatch(func() {
		fset := token.NewFileSet()
		ParseFile(nil, fset, pos[0], src, AllErrors|ParseComments)
	})
	vfObserve("panicked", vfB2U(p))
	vfAssert(!p, "parse/no-panic")
}
