//go:build verif

package diff

import "unicode/utf8"

// C22 — computed diffs apply back to the target text.

func init() {
	vfRegistry["VfH_strings"] = VfH_strings
	vfRegistry["VfH_bytes"] = VfH_bytes
	vfRegistry["VfH_apply"] = VfH_apply
}

const vfMaxLen = 4

// Cases: (len(before), len(after)) in 0..4 x 0..4.
func VfN_strings() int { return (vfMaxLen + 1) * (vfMaxLen + 1) }
func VfN_bytes() int   { return (vfMaxLen + 1) * (vfMaxLen + 1) }

func vfCheckEdits(prefix string, before, after string, edits []Edit) {
	// sorted, in bounds, non-overlapping
	okShape := true
	last := 0
	for _, e := range edits {
		if !(0 <= e.Start && e.Start <= e.End && e.End <= len(before)) || e.Start < last {
			okShape = false
		}
		last = e.End
	}
	vfAssert(okShape, prefix+"/edits-sorted-in-bounds-non-overlapping")
	// rune boundaries of the first text
	okRune := true
	for _, e := range edits {
		if e.Start < len(before) && !utf8.RuneStart(before[e.Start]) {
			okRune = false
		}
		if e.End < len(before) && !utf8.RuneStart(before[e.End]) {
			okRune = false
		}
		if !utf8.ValidString(e.New) {
			okRune = false
		}
	}
	vfAssert(okRune, prefix+"/edits-on-rune-boundaries")
	var got string
	var err error
	p := vfCatch(func() { got, err = Apply(before, edits) })
	vfAssert(!p && err == nil, prefix+"/apply-accepts-computed-edits")
	if !p && err == nil {
		vfAssert(got == after, prefix+"/apply-yields-second-text")
	}
}

func VfH_strings() {
	k := vfCase()
	n1, n2 := k%(vfMaxLen+1), k/(vfMaxLen+1)
	vfNote("case:len=" + string(rune('0'+n1)) + "," + string(rune('0'+n2)))
	before := string(vfBytes("a", n1))
	after := string(vfBytes("b", n2))
	vfAssume(utf8.ValidString(before))
	vfAssume(utf8.ValidString(after))
	var edits []Edit
	p := vfCatch(func() { edits = Strings(before, after) })
	vfAssert(!p, "strings/no-panic")
	if p {
		return
	}
	vfObserve("nedits", uint64(len(edits)))
	vfCheckEdits("strings", before, after, edits)
}

func VfH_bytes() {
	k := vfCase()
	n1, n2 := k%(vfMaxLen+1), k/(vfMaxLen+1)
	vfNote("case:len=" + string(rune('0'+n1)) + "," + string(rune('0'+n2)))
	before := vfBytes("a", n1)
	after := vfBytes("b", n2)
	vfAssume(utf8.Valid(before))
	vfAssume(utf8.Valid(after))
	var edits []Edit
	p := vfCatch(func() { edits = Bytes(before, after) })
	vfAssert(!p, "bytes/no-panic")
	if p {
		return
	}
	vfObserve("nedits", uint64(len(edits)))
	vfCheckEdits("bytes", string(before), string(after), edits)
}

// Apply/validate on arbitrary (not computed) edit lists: two edits with symbolic
// bounds on a 3-byte text; accepted iff in bounds and non-overlapping after
// sorting, and then the result is the reference splice.
func VfH_apply() {
	src := string(vfBytes("s", 3))
	e1 := Edit{vfInt("s1"), vfInt("e1"), string(vfBytes("n1", 1))}
	e2 := Edit{vfInt("s2"), vfInt("e2"), string(vfBytes("n2", 1))}
	for _, v := range []int{e1.Start, e1.End, e2.Start, e2.End} {
		vfAssume(v >= -1 && v <= 4)
	}
	var got string
	var err error
	p := vfCatch(func() { got, err = Apply(src, []Edit{e1, e2}) })
	vfAssert(!p, "apply/no-panic")
	if p {
		return
	}
	inb := func(e Edit) bool { return 0 <= e.Start && e.Start <= e.End && e.End <= 3 }
	// order by (start, end), stable
	a, b := e1, e2
	if b.Start < a.Start || (b.Start == a.Start && b.End < a.End) {
		a, b = b, a
	}
	valid := inb(a) && inb(b) && b.Start >= a.End
	vfObserve("valid", vfB2U(valid))
	vfAssert((err == nil) == valid, "apply/accepts-iff-in-bounds-and-disjoint")
	if err == nil && valid {
		want := src[:a.Start] + a.New + src[a.End:b.Start] + b.New + src[b.End:]
		vfAssert(got == want, "apply/result-is-the-splice")
	}
}
