//go:build verif

package lsp

import (
	"unicode/utf8"

	"wa-lang.org/wa/internal/lsp/protocol"
)

// C21 — language-server document sync: after an incremental change whose range
// is in UTF-16 line/character positions the server's text equals the client's.
//
// The client's model (oracle): the document is a sequence of lines separated by
// '\n'; a position (line, character) counts UTF-16 code units within the line;
// the edit replaces the units between start and end.

func init() {
	vfRegistry["VfH_change"] = VfH_change
	vfRegistry["VfH_full"] = VfH_full
}

const vfURI = protocol.DocumentURI("file:///v.wa")

// vfPos: byte offset of (line, char) in doc, or ok=false if the position does
// not exist in the client's document; mid=true if it falls inside a surrogate pair.
func vfPos(doc []byte, line, char uint32) (off int, ok bool, mid bool) {
	// start of the line
	start, l := 0, uint32(0)
	for i := 0; i < len(doc) && l < line; i++ {
		if doc[i] == '\n' {
			l++
			start = i + 1
		}
	}
	if l < line {
		// one past the last line, character 0, is the end of the document
		if line == l+1 && char == 0 {
			return len(doc), true, false
		}
		return 0, false, false
	}
	off = start
	units := uint32(0)
	for units < char {
		if off >= len(doc) || doc[off] == '\n' {
			return 0, false, false // beyond the end of the line
		}
		if doc[off] == '\r' {
			// "\r\n" ends the line for the client; a character index between \r and \n is
			// something no client sends (no claim), anything further is beyond the line
			return 0, false, units+1 == char
		}
		r, sz := utf8.DecodeRune(doc[off:])
		if r >= 0x10000 {
			if units+1 == char {
				return off, true, true
			}
			units += 2
		} else {
			units++
		}
		off += sz
	}
	return off, true, false
}

func vfServer(doc []byte) *LSPServer {
	s := &LSPServer{fileMap: map[string]string{}, syncFile: &SyncFile{}}
	s.fileMap[vfURI.Path()] = string(doc)
	return s
}

// Cases: document length 0..4 x replacement length 0..2.
// plus (12..14) a 4-byte document that is one supplementary-plane character
// (two UTF-16 units), ahead of the general 4-byte documents (15..17).
func VfN_change() int { return 6 * 3 }

func VfH_change() {
	k := vfCase()
	n, tn := k/3, k%3 // document length major, so that a case limit bounds the document length
	astral := n == 4
	if n >= 4 {
		n = 4
	}
	vfNote("case:doc=" + string(rune('0'+n)) + map[bool]string{true: "(astral)", false: ""}[astral] + ",text=" + string(rune('0'+tn)))
	doc := vfBytes("d", n)
	if astral {
		vfAssume(doc[0] >= 0xf0)
	}
	text := vfBytes("t", tn)
	vfAssume(utf8.Valid(doc))
	vfAssume(utf8.Valid(text))
	for i, b := range doc {
		// CRLF line ends are in; a lone CR (which gopls-style mappers do not treat as a line end) is outside this harness
		if b == '\r' {
			vfAssume(i+1 < len(doc) && doc[i+1] == '\n')
		}
	}
	sl, sc, el, ec := vfU32("sl"), vfU32("sc"), vfU32("el"), vfU32("ec")
	vfAssume(sl <= 6 && sc <= 6 && el <= 6 && ec <= 6)
	rng := protocol.Range{Start: protocol.Position{Line: sl, Character: sc}, End: protocol.Position{Line: el, Character: ec}}
	srv := vfServer(doc)
	var got []byte
	var err error
	p := vfCatch(func() {
		got, err = srv.changedText(vfURI, []protocol.TextDocumentContentChangeEvent{{Range: &rng, Text: string(text)}})
	})
	vfAssert(!p, "change/no-panic")
	if p {
		return
	}
	so, sok, smid := vfPos(doc, sl, sc)
	eo, eok, emid := vfPos(doc, el, ec)
	vfObserve("accepted", vfB2U(err == nil))
	if smid || emid {
		vfNote("position inside a surrogate pair or between CR and LF: no claim")
		return
	}
	valid := sok && eok && so <= eo
	if valid {
		vfAssert(err == nil, "change/valid-range-accepted")
		if err == nil {
			want := append(append(append([]byte{}, doc[:so]...), text...), doc[eo:]...)
			vfAssert(string(got) == string(want), "change/server-text-equals-client-text")
		}
	} else {
		vfAssert(err != nil, "change/invalid-range-rejected")
	}
	vfAssert(srv.fileMap[vfURI.Path()] == string(doc), "change/stored-text-untouched-until-commit")
}

// A full-document change replaces the text whatever it was.
func VfH_full() {
	doc := vfBytes("d", 2)
	text := vfBytes("t", 3)
	srv := vfServer(doc)
	got, err := srv.changedText(vfURI, []protocol.TextDocumentContentChangeEvent{{Text: string(text)}})
	vfAssert(err == nil && string(got) == string(text), "full/server-text-equals-client-text")
	_, err2 := srv.changedText(vfURI, nil)
	vfAssert(err2 != nil, "full/no-changes-is-an-error")
}
