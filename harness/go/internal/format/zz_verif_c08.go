//go:build verif

package format

// C08 — format.File never panics whatever the file name extension and content
// (language detection by xlang.DetectLang with the real Wa scanner; the
// formatters themselves are stubbed: only the dispatch is claimed here).

func init() { vfRegistry["VfH_file"] = VfH_file }

var vfNames = []string{"a.wa", "a.wz", "a.wat", "a.wa.s", "a.wz.s", "a.txt", "a", "A.WA", ""}

// Cases: file name x content length 0..2.
func VfN_file() int { return len(vfNames) * 3 }

func VfH_file() {
	k := vfCase()
	name, n := vfNames[k/3], k%3
	vfNote("case:" + name + "/" + string(rune('0'+n)))
	src := vfBytes("s", n)
	var err error
	p := vfCatch(func() { _, _, err = File(nil, name, src) })
	vfObserve("panicked", vfB2U(p))
	_ = err
	vfAssert(!p, "file/no-panic")
}

// Longer inputs around buffer-size boundaries: a body of line comments (every scanner skips them, so
// language detection walks the whole input with all three scanners) ending in one arbitrary byte.
var vfLongSizes = []int{1024, 1025, 4097}

func init() { vfRegistry["VfH_file_long"] = VfH_file_long }

func VfN_file_long() int { return len(vfNames) * len(vfLongSizes) }

func VfH_file_long() {
	k := vfCase()
	name, n := vfNames[k/len(vfLongSizes)], vfLongSizes[k%len(vfLongSizes)]
	vfNote("case:" + name + "/long")
	src := make([]byte, 0, n)
	for len(src) < n-1 {
		src = append(src, "// filler\n"[len(src)%10])
	}
	src = append(src, vfBytes("t", 1)[0])
	var err error
	p := vfCatch(func() { _, _, err = File(nil, name, src) })
	vfObserve("panicked", vfB2U(p))
	_ = err
	vfAssert(!p, "file/no-panic-on-long-input")
}
