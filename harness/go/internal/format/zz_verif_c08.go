//go:build verif

package format

// C08 — format.File never panics whatever the file name extension and content
// (language detection by xlang.DetectLang with the real Wa scanner; the
// formatters themselves are stubbed: only the dispatch is claimed here).

func init() { vfRegistry["VfH_file"] = VfH_file }

var vfNames = []string{"a.wa", "a.wz", "a.wat", "a.wa.s", "a.wz.s", "a.txt", "a", "A.WA", ""}

// Cases: file name x content length 0..2.
func VfN_file() int { return len(vfNames) * 3 }

func VfH_file() {
	k := vfCase()
	name, n := vfNames[k/3], k%3
	vfNote("case:" + name + "/" + string(rune('0'+n)))
	src := vfBytes("s", n)
	var err error
	p := vfCatch(func() { _, _, err = File(nil, name, src) })
	vfObserve("panicked", vfB2U(p))
	_ = err
	vfAssert(!p, "file/no-panic")
}
