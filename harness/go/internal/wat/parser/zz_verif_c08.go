//go:build verif

package parser

// C08 — the WAT parser returns (a module or an error) on token skeletons: two arbitrary bytes at each
// operand / declaration position of a small module; it must not panic.

func init() { vfRegistry["VfH_wat_pos"] = VfH_wat_pos }

// {text before, text after}
var vfWatPos = [][2]string{
	{"(module (func i32.const ", "\n))"},
	{"(module (func i64.const ", "\n))"},
	{"(module (func f32.const ", "\n))"},
	{"(module (func f64.const ", "\n))"},
	{"(module (func (param i32) local.get ", "\n))"},
	{"(module (func $f call ", "\n))"},
	{"(module (func block br ", "\nend))"},
	{"(module (memory 1) (func i32.const 0 i32.load offset=", "\ndrop))"},
	{"(module (memory 1) (func i32.const 0 i32.load align=", "\ndrop))"},
	{"(module (memory ", "\n))"},
	{"(module (memory 1) (data (i32.const 0) ", "\n))"},
	{"(module (memory 1) (data (i32.const ", "\n) \"a\"))"},
	{"(module (func $f) (export ", "\n (func $f)))"},
	{"(module (func $f) (export \"f\" (func ", "\n)))"},
	{"(module (global $g i32 (i32.const ", "\n)))"},
	{"(module (global $g ", "\n (i32.const 1)))"},
	{"(module (func $", "\n))"},
	{"(module (func (param ", "\n)))"},
	{"(module (func (result ", "\n)))"},
	{"(module (func (local ", "\n)))"},
	{"(module (import ", "\n \"f\" (func)))"},
	{"(module (import \"m\" \"f\" (", "\n)))"},
	{"(module (type ", "\n (func)))"},
	{"(module (table ", "\n funcref))"},
	{"(module (table 1 funcref) (func $f) (elem (i32.const ", "\n) $f))"},
	{"(module (func $f) (start ", "\n))"},
	{"(module ", "\n)"},
	{"(", "\n)"},
	{"", "\n"},
}

func VfN_wat_pos() int { return len(vfWatPos) }

func VfH_wat_pos() {
	pos := vfWatPos[vfCase()]
	name := []byte(pos[0])
	for i, ch := range name {
		if ch == ' ' {
			name[i] = '_'
		}
	}
	vfNote("case:" + string(name))
	b := vfBytes("b", 2)
	src := append(append([]byte(pos[0]), b[0], b[1]), pos[1]...)
	p := vfCatch(func() { ParseModule("a.wat", src) })
	vfObserve("panicked", vfB2U(p))
	vfAssert(!p, "wat-parse/no-panic")
}
