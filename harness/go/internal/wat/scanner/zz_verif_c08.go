//go:build verif

package scanner

import (
	"wa-lang.org/wa/internal/wat/token"
)

// C08 — the wat scanner never panics and always makes progress on arbitrary input.
// Driven as its callers drive it: Init, then Scan until EOF.

func init() { vfRegistry["VfH_scan"] = VfH_scan }

// Cases: 0: empty; 1: one arbitrary byte; 2..9: two bytes, the first ASCII with its high
// nibble fixed (parallel tasks); 10..17: two bytes, the first non-ASCII; 18..81: three
// ASCII bytes, high nibbles of the first two fixed.
func VfN_scan() int { return 2 + 16 + 64 }

func vfScanCase(k int) (n int, src []byte) {
	switch {
	case k < 2:
		return k, vfBytes("s", k)
	case k < 18:
		src = vfBytes("s", 2)
		vfAssume(src[0]>>4 == byte(k-2))
		return 2, src
	}
	k -= 18
	src = vfBytes("s", 3)
	vfAssume(src[0]>>4 == byte(k/8) && src[1]>>4 == byte(k%8) && src[2] < 0x80)
	return 3, src
}

func VfH_scan() {
	n, src := vfScanCase(vfCase())
	file := token.NewFile("x", n)
	s := &Scanner{}
	nerr := 0
	withHandler := vfBool("handler")
	var eh ErrorHandler
	if withHandler {
		eh = func(pos token.Position, msg string) { nerr++ }
	}
	comments := vfBool("comments")
	var mode Mode
	if comments {
		mode = ScanComments
	}
	calls, eof := 0, false
	p := vfCatch(func() {
		s.Init(file, src, eh, mode)
		// every Scan either returns EOF or consumes input; an inserted semicolon costs one extra call per line
		for calls < 2*n+4 {
			_, tok, _ := s.Scan()
			calls++
			if tok == token.EOF {
				eof = true
				break
			}
		}
	})
	vfObserve("calls", uint64(calls))
	vfAssert(!p, "scan/no-panic")
	if !p {
		vfAssert(eof, "scan/reaches-eof-within-2n+4-calls")
	}
}
