//go:build verif

package slip

import "io"

// C25 — SLIP framing delivers exactly the packets that were sent.

func init() {
	vfRegistry["VfH_slip"] = VfH_slip
	vfRegistry["VfH_mux"] = VfH_mux
	vfRegistry["VfH_fcs"] = VfH_fcs
}

// vfSink collects what the writer emits.
type vfSink struct{ data []byte }

func (s *vfSink) Write(p []byte) (int, error) {
	s.data = append(s.data, p...)
	return len(p), nil
}

type vfEOF struct{}

// vfTransport hands the stream out; at read number stallAt (counted over all
// reads) it returns (0, nil) once - a serial read time-out, which ReadPacket
// reports as isPrefix. At the end of the stream it returns io.EOF, or panics
// with vfEOF{} when hardEOF is set (SlipMuxReader never returns on EOF).
type vfTransport struct {
	data    []byte
	pos     int
	reads   int
	stallAt int
	hardEOF bool
}

func (t *vfTransport) Read(p []byte) (int, error) {
	k := t.reads
	t.reads++
	if k == t.stallAt {
		return 0, nil
	}
	if t.pos >= len(t.data) {
		if t.hardEOF {
			panic(vfEOF{})
		}
		return 0, io.EOF
	}
	n := copy(p, t.data[t.pos:])
	t.pos += n
	return n, nil
}

func vfEq(a, b []byte) bool {
	if len(a) != len(b) {
		return false
	}
	ok := true
	for i := range a {
		if a[i] != b[i] {
			ok = false
		}
	}
	return ok
}

// Cases: (len1, len2, stall) with len1 in 1..3, len2 in 0..3 (0 = one packet), stall in {no, yes}.
func VfN_slip() int { return 3 * 4 * 2 }

func VfH_slip() {
	k := vfCase()
	l1, l2, stall := k%3+1, k/3%4, k/12 == 1
	vfNote("case:len=" + string(rune('0'+l1)) + "+" + string(rune('0'+l2)) + map[bool]string{false: "", true: ",zero-length-read"}[stall])
	p1 := vfBytes("p1", l1)
	p2 := vfBytes("p2", l2)
	sink := &vfSink{}
	w := NewWriter(sink)
	e1 := w.WritePacket(p1)
	var e2 error
	if l2 > 0 {
		e2 = w.WritePacket(p2)
	}
	vfAssert(e1 == nil && e2 == nil, "slip/write-ok")
	stream := sink.data
	vfObserve("streamlen", uint64(len(stream)))

	tr := &vfTransport{data: stream, stallAt: -1}
	if stall {
		tr.stallAt = vfInt("stallAt")
		vfAssume(tr.stallAt >= 0 && tr.stallAt < len(stream))
	}
	r := NewReader(tr)
	var got [][]byte
	var cur []byte
	for iter := 0; iter < 8; iter++ {
		p, isPrefix, err := r.ReadPacket()
		cur = append(cur, p...)
		if err != nil {
			break
		}
		if !isPrefix {
			got = append(got, cur)
			cur = nil
		}
	}
	want := 1
	if l2 > 0 {
		want = 2
	}
	ok := len(got) == want && len(cur) == 0 && vfEq(got[0], p1) && (want == 1 || vfEq(got[1], p2))
	if stall {
		vfAssert(ok, "slip/packets-delivered-in-order@zero-length-read")
	} else {
		vfAssert(ok, "slip/packets-delivered-in-order")
	}
}

// Frame classes from the SLIPMUX draft (not from the code under test): an IPv4
// packet starts with 0x45..0x4f, an IPv6 packet with 0x60..0x6f.
func vfIsV4(f byte) bool { return f >= 0x45 && f <= 0x4f }
func vfIsV6(f byte) bool { return f >= 0x60 && f <= 0x6f }

// SLIPMUX. Cases: payload length 0..2 x frame class {diagnostic, coap(4 byte payload), ipv4, ipv6, other}.
func VfN_mux() int { return 3*4 + 1 }

func VfH_mux() {
	k := vfCase()
	class, l := k/3, k%3
	var frame byte
	var p []byte
	switch class {
	case 0:
		frame = FRAME_DIAGNOSTIC
		p = vfBytes("p", l)
		vfNote("case:diagnostic/" + string(rune('0'+l)))
	case 1:
		frame = vfU8("frame")
		vfAssume(vfIsV4(frame))
		p = vfBytes("p", l+1)
		vfAssume(p[0] == frame) // an IP packet starts with its own version nibble; the frame byte is not prepended
		vfNote("case:ipv4/" + string(rune('1'+l)))
	case 2:
		frame = vfU8("frame")
		vfAssume(vfIsV6(frame))
		p = vfBytes("p", l+1)
		vfAssume(p[0] == frame)
		vfNote("case:ipv6/" + string(rune('1'+l)))
	case 3:
		frame = vfU8("frame")
		vfAssume(!vfIsV4(frame) && !vfIsV6(frame) && frame != 0xa9 && frame != 0xc0 && frame != 0xdb && frame != 0x00)
		p = vfBytes("p", l)
		vfNote("case:other/" + string(rune('0'+l)))
	default:
		frame = FRAME_COAP
		p = []byte{0x40, 0x01, 0x00, vfU8("c3")} // smallest CoAP message, last byte symbolic
		vfNote("case:coap/4")
	}
	sink := &vfSink{}
	w := NewSlipMuxWriter(sink)
	err := w.WritePacket(frame, p)
	vfAssert(err == nil, "mux/write-ok")
	tr := &vfTransport{data: sink.data, stallAt: -1, hardEOF: true}
	r := NewSlipMuxReader(tr)
	var res []byte
	var ft byte
	var rerr error
	eof := vfCatch(func() { res, ft, rerr = r.ReadPacket() })
	vfObserve("eof", vfB2U(eof))
	if len(p) == 0 {
		// an empty payload still carries its frame byte
		vfAssert(!eof && rerr == nil && ft == frame && len(res) == 0, "mux/packet-and-frame-type-delivered")
		return
	}
	vfAssert(!eof && rerr == nil && ft == frame && vfEq(res, p), "mux/packet-and-frame-type-delivered")
}

// FCS-16 one-step lemma: the table-driven update equals the bitwise CRC-16/X-25 definition.
func VfH_fcs() {
	fcs := vfU16("fcs")
	b := vfU8("b")
	got := CalcFcs16WithInit(fcs, []byte{b})
	x := fcs ^ uint16(b)
	for i := 0; i < 8; i++ {
		if x&1 == 1 {
			x = x>>1 ^ 0x8408
		} else {
			x >>= 1
		}
	}
	// only the low byte of fcs^b goes through the shift register; the high byte of fcs is shifted in unchanged
	ref := fcs >> 8
	y := (fcs ^ uint16(b)) & 0xff
	for i := 0; i < 8; i++ {
		if y&1 == 1 {
			y = y>>1 ^ 0x8408
		} else {
			y >>= 1
		}
	}
	ref ^= y
	_ = x
	vfObserve("got", uint64(got))
	vfAssert(got == ref, "fcs/table-step-equals-bitwise-crc")
}
