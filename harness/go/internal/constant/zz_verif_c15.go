//go:build verif

package constant

import (
	"math/big"

	"wa-lang.org/wa/internal/token"
)

// C15 — constant folding agrees with exact (arbitrary precision) arithmetic.
// Oracle: math/big (natively the real package; symbolically exact 128-bit
// bit-vectors, enough for one operation on 64-bit operands).

func init() {
	vfRegistry["VfH_binop"] = VfH_binop
	vfRegistry["VfH_binopMixed"] = VfH_binopMixed
	vfRegistry["VfH_unary"] = VfH_unary
	vfRegistry["VfH_shift"] = VfH_shift
	vfRegistry["VfH_compare"] = VfH_compare
	vfRegistry["VfH_conv"] = VfH_conv
}

func vfBig(v Value) (*big.Int, bool) {
	switch x := v.(type) {
	case int64Val:
		return big.NewInt(int64(x)), true
	case intVal:
		return x.val, true
	}
	return nil, false
}

var vfBinOps = []token.Token{token.ADD, token.SUB, token.MUL, token.QUO_ASSIGN, token.REM, token.AND, token.OR, token.XOR, token.AND_NOT}
var vfBinNames = []string{"ADD", "SUB", "MUL", "QUO_ASSIGN", "REM", "AND", "OR", "XOR", "AND_NOT"}

func VfN_binop() int { return len(vfBinOps) }

func vfRefBin(op token.Token, x, y *big.Int, a, b int64, haveI64 bool) *big.Int {
	z := new(big.Int)
	switch op {
	case token.ADD:
		return z.Add(x, y)
	case token.SUB:
		return z.Sub(x, y)
	case token.MUL:
		return z.Mul(x, y)
	case token.AND:
		return z.And(x, y)
	case token.OR:
		return z.Or(x, y)
	case token.XOR:
		return z.Xor(x, y)
	case token.AND_NOT:
		return z.AndNot(x, y)
	case token.QUO_ASSIGN:
		// truncated quotient; exact in int64 unless MinInt64 / -1 = 2^63
		if a == -1<<63 && b == -1 {
			return z.Lsh(big.NewInt(1), 63)
		}
		return big.NewInt(a / b)
	case token.REM:
		if b == -1 {
			return big.NewInt(0)
		}
		return big.NewInt(a % b)
	}
	return nil
}

// vfCheckInt: r must denote exactly want, and be reported as an exact int64
// by the public accessor iff want fits int64.
func vfIntAgrees(r Value, want *big.Int) (value bool, exactness bool) {
	got, ok := vfBig(r)
	if !ok {
		return false, false
	}
	value = got.Cmp(want) == 0
	i, exact := Int64Val(r)
	exactness = exact == want.IsInt64() && (!exact || i == want.Int64())
	return
}

func VfH_binop() {
	k := vfCase()
	op := vfBinOps[k]
	vfNote("case:" + vfBinNames[k])
	a := vfI64("a")
	b := vfI64("b")
	if op == token.QUO_ASSIGN || op == token.REM {
		vfAssume(b != 0) // the type checker reports division by zero before folding
	}
	var r Value
	p := vfCatch(func() { r = BinaryOp(MakeInt64(a), op, MakeInt64(b)) })
	vfAssert(!p, "binop/no-panic")
	want := vfRefBin(op, big.NewInt(a), big.NewInt(b), a, b, true)
	v, e := vfIntAgrees(r, want)
	lo, _ := Int64Val(r)
	vfObserve("lo", uint64(lo))
	vfAssert(v, "binop/exact-value")
	vfAssert(e, "binop/int64-iff-fits")
}

var vfMixOps = []token.Token{token.ADD, token.SUB, token.AND, token.OR, token.XOR, token.AND_NOT}
var vfMixNames = []string{"ADD", "SUB", "AND", "OR", "XOR", "AND_NOT"}

func VfN_binopMixed() int { return 2 * len(vfMixOps) }

// one operand beyond int64 (an untyped constant such as 1<<63 + k)
func VfH_binopMixed() {
	k := vfCase()
	op := vfMixOps[k%len(vfMixOps)]
	swap := k >= len(vfMixOps)
	if swap {
		vfNote("case:" + vfMixNames[k%len(vfMixOps)] + "-int64-op-big")
	} else {
		vfNote("case:" + vfMixNames[k%len(vfMixOps)] + "-big-op-int64")
	}
	u := vfU64("u")
	b := vfI64("b")
	x, y := MakeUint64(u), MakeInt64(b)
	bx, by := new(big.Int).SetUint64(u), big.NewInt(b)
	if swap {
		x, y = y, x
		bx, by = by, bx
	}
	var r Value
	p := vfCatch(func() { r = BinaryOp(x, op, y) })
	vfAssert(!p, "mixed/no-panic")
	want := vfRefBin(op, bx, by, 0, 0, false)
	v, e := vfIntAgrees(r, want)
	lo, _ := Int64Val(r)
	vfObserve("lo", uint64(lo))
	vfAssert(v, "mixed/exact-value")
	vfAssert(e, "mixed/int64-iff-fits")
}

func VfN_unary() int { return 7 }

func VfH_unary() {
	k := vfCase()
	a := vfI64("a")
	var r Value
	want := new(big.Int)
	switch k {
	case 0:
		vfNote("case:ADD")
		r = UnaryOp(token.ADD, MakeInt64(a), 0)
		want = big.NewInt(a)
	case 1:
		vfNote("case:SUB")
		r = UnaryOp(token.SUB, MakeInt64(a), 0)
		want.Neg(big.NewInt(a))
	default:
		precs := []uint{0, 8, 16, 32, 64}
		names := []string{"XOR-signed", "XOR-u8", "XOR-u16", "XOR-u32", "XOR-u64"}
		prec := precs[k-2]
		vfNote("case:" + names[k-2])
		if prec > 0 && prec < 64 {
			vfAssume(a >= 0 && a < int64(1)<<prec) // operand representable in the unsigned type
		}
		var x Value = MakeInt64(a)
		bx := big.NewInt(a)
		if prec == 64 {
			u := uint64(a)
			x = MakeUint64(u)
			bx = new(big.Int).SetUint64(u)
		}
		r = UnaryOp(token.XOR, x, prec)
		want.Not(bx)
		if prec > 0 {
			// ^x for an unsigned type of prec bits: 2^prec - 1 - x
			m := new(big.Int).Lsh(big.NewInt(1), prec)
			m.Sub(m, big.NewInt(1))
			want.Sub(m, bx)
		}
	}
	v, e := vfIntAgrees(r, want)
	lo, _ := Int64Val(r)
	vfObserve("lo", uint64(lo))
	vfAssert(v, "unary/exact-value")
	vfAssert(e, "unary/int64-iff-fits")
}

func VfN_shift() int { return 2 }

func VfH_shift() {
	k := vfCase()
	a := vfI64("a")
	s := uint(vfU8("s"))
	vfAssume(s <= 63)
	var r Value
	want := new(big.Int)
	if k == 0 {
		vfNote("case:SHL")
		r = Shift(MakeInt64(a), token.SHL, s)
		want.Lsh(big.NewInt(a), s)
	} else {
		vfNote("case:SHR")
		r = Shift(MakeInt64(a), token.SHR, s)
		want.Rsh(big.NewInt(a), s)
	}
	v, e := vfIntAgrees(r, want)
	lo, _ := Int64Val(r)
	vfObserve("lo", uint64(lo))
	vfAssert(v, "shift/exact-value")
	vfAssert(e, "shift/int64-iff-fits")
}

var vfCmpOps = []token.Token{token.EQL, token.NEQ, token.LSS, token.LEQ, token.GTR, token.GEQ}
var vfCmpNames = []string{"EQL", "NEQ", "LSS", "LEQ", "GTR", "GEQ"}

func VfN_compare() int { return 2 * len(vfCmpOps) }

func vfRefCmp(op token.Token, c int) bool {
	switch op {
	case token.EQL:
		return c == 0
	case token.NEQ:
		return c != 0
	case token.LSS:
		return c < 0
	case token.LEQ:
		return c <= 0
	case token.GTR:
		return c > 0
	case token.GEQ:
		return c >= 0
	}
	return false
}

func VfH_compare() {
	k := vfCase()
	op := vfCmpOps[k%len(vfCmpOps)]
	b := vfI64("b")
	var x Value
	var bx *big.Int
	if k < len(vfCmpOps) {
		vfNote("case:" + vfCmpNames[k%len(vfCmpOps)] + "-int64")
		a := vfI64("a")
		x, bx = MakeInt64(a), big.NewInt(a)
	} else {
		vfNote("case:" + vfCmpNames[k%len(vfCmpOps)] + "-big")
		u := vfU64("u")
		x, bx = MakeUint64(u), new(big.Int).SetUint64(u)
	}
	got := Compare(x, op, MakeInt64(b))
	vfObserve("got", vfB2U(got))
	vfAssert(got == vfRefCmp(op, bx.Cmp(big.NewInt(b))), "compare/agrees-with-exact-order")
	got2 := Compare(MakeInt64(b), op, x)
	vfAssert(got2 == vfRefCmp(op, big.NewInt(b).Cmp(bx)), "compare/agrees-swapped")
}

func VfH_conv() {
	a := vfI64("a")
	u := vfU64("u")
	i, ok := Int64Val(MakeInt64(a))
	vfAssert(ok && i == a, "conv/Int64Val-MakeInt64")
	uu, uok := Uint64Val(MakeUint64(u))
	vfAssert(uok && uu == u, "conv/Uint64Val-MakeUint64")
	au, aok := Uint64Val(MakeInt64(a))
	vfAssert(aok == (a >= 0) && (!aok || au == uint64(a)), "conv/Uint64Val-of-int64")
	iu, iok := Int64Val(MakeUint64(u))
	vfAssert(iok == (u < 1<<63) && (!iok || iu == int64(u)), "conv/Int64Val-of-uint64")
	sg := Sign(MakeInt64(a))
	vfAssert((sg < 0) == (a < 0) && (sg == 0) == (a == 0), "conv/Sign")
	vfAssert(Sign(MakeUint64(u)) >= 0 && (Sign(MakeUint64(u)) == 0) == (u == 0), "conv/Sign-uint64")
	t := ToInt(MakeUint64(u))
	tu, tok := Uint64Val(t)
	vfAssert(tok && tu == u, "conv/ToInt-identity")
	vfObserve("i", uint64(i))
	vfObserve("uu", uu)
}
