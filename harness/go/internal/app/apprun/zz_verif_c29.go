//go:build verif

package apprun

import (
	"errors"

	"wa-lang.org/wa/internal/3rdparty/wazero/sys"
	"wa-lang.org/wa/internal/app/appbase"
	"wa-lang.org/wa/internal/wazero"
)

// C29 — `wa run` exit status reflects how the program ended.
//
// CmdRunAction / runWasm are the real code; the check driver regenerates
// apprun.go at run time with the *environment calls* (cli.Context accessors,
// file system, compiler, WebAssembly runtime, os.Exit) textually redirected to
// the vf* stubs below, which return an arbitrary member of their contract.
// The process status is: the argument of os.Exit if it is called; otherwise 0
// when main drops the error returned by cli.App.Run (vfMainHandlesError is
// generated from main.go by the driver), else 1 for a returned error.

func init() { vfRegistry["VfH_run"] = VfH_run }

type vfExitT struct{ code int }

func vfExit(code int) { panic(vfExitT{code}) }

// ----- scenario (set by the harness before calling CmdRunAction) -----

var vfSc struct {
	input                       string
	narg                        int
	console, web, debug         bool
	readErr, asmErr, buildErr   bool
	moduleErr                   bool
	unknownImports              bool
	endKind                     int // 0 program returns, 1 program calls exit(endCode), 2 trap / panic (any other error)
	endCode                     uint32
	reachedRun                  bool
}

func vfArgFirst() string { return vfSc.input }
func vfArgSlice() []string {
	s := []string{vfSc.input}
	for i := 1; i < vfSc.narg; i++ {
		s = append(s, "x")
	}
	return s
}
func vfNArg() int { return vfSc.narg }
func vfFlagBool(name string) bool {
	switch name {
	case "console":
		return vfSc.console
	case "web":
		return vfSc.web
	case "debug":
		return vfSc.debug
	}
	return false
}
func vfFlagString(name string) string     { return ":8000" }
func vfBuildOptions() *appbase.Option     { return &appbase.Option{} }
func vfGetwd() (string, error)            { return "/work", nil }
func vfRemove(name string) error          { return nil }
func vfListen(addr string, h interface{}) error { return errors.New("listen") }

var vfErrIO = errors.New("io error")
var vfErrCompile = errors.New("compile error")
var vfErrTrap = errors.New("wasm error: integer divide by zero")

func vfReadFile(name string) ([]byte, error) {
	if vfSc.readErr {
		return nil, vfErrIO
	}
	return []byte{0, 'a', 's', 'm'}, nil
}
func vfWat2Wasm(name string, src []byte) ([]byte, error) {
	if vfSc.asmErr {
		return nil, vfErrCompile
	}
	return []byte{0, 'a', 's', 'm'}, nil
}
func vfBuildApp(opt *appbase.Option, input, outfile string) (string, []byte, []byte, error) {
	if vfSc.buildErr {
		return "", nil, nil, vfErrCompile
	}
	return "_main", []byte{0, 'a', 's', 'm'}, nil, nil
}
func vfHasUnknown(wasm []byte) bool { return vfSc.unknownImports }
func vfBuildModule(name string, wasm, fset []byte, args ...string) (*wazero.Module, error) {
	if vfSc.moduleErr {
		return nil, vfErrCompile
	}
	return &wazero.Module{}, nil
}
func vfClose(m *wazero.Module) error { return nil }
func vfEnd() ([]byte, []byte, error) {
	vfSc.reachedRun = true
	switch vfSc.endKind {
	case 0:
		return []byte("out\n"), nil, nil
	case 1:
		return []byte("out\n"), nil, sys.NewExitError("app", vfSc.endCode)
	}
	return nil, []byte("trap\n"), vfErrTrap
}
func vfRunMain(m *wazero.Module, mainFunc string) ([]byte, []byte, error) { return vfEnd() }
func vfRunWasm(name string, wasm, fset []byte, mainFunc string, args ...string) ([]byte, []byte, error) {
	return vfEnd()
}

var vfInputs = []string{"a.wa", "a.wz", "dir", "a.wat", "a.wasm"}

func VfN_run() int { return len(vfInputs) }

func VfH_run() {
	in := vfInputs[vfCase()]
	vfNote("case:" + in)
	vfSc.input = in
	vfSc.narg = 1 + vfChoice("extraArgs", 3)
	vfSc.console, vfSc.web, vfSc.debug = vfBool("console"), false, vfBool("debug")
	vfSc.unknownImports = false // web mode (an HTTP server that never returns) is outside the claim
	vfSc.readErr, vfSc.asmErr = vfBool("readErr"), vfBool("asmErr")
	vfSc.buildErr, vfSc.moduleErr = vfBool("buildErr"), vfBool("moduleErr")
	vfSc.endKind = vfChoice("end", 3)
	vfSc.endCode = vfU32("code")
	vfSc.reachedRun = false

	status, exited := 0, false
	var err error
	func() {
		defer func() {
			if r := recover(); r != nil {
				e, ok := r.(vfExitT)
				if !ok {
					panic(r)
				}
				status, exited = e.code, true
			}
		}()
		err = CmdRunAction(nil)
	}()
	if !exited && err != nil && vfMainHandlesError {
		status = 1
	}
	vfObserve("status", uint64(uint32(status)))
	vfObserve("ran", vfB2U(vfSc.reachedRun))

	if !vfSc.reachedRun {
		// the program never started: reading, assembling, compiling or instantiating failed
		vfAssert(status != 0, "run/failure-before-start-is-nonzero")
		return
	}
	switch vfSc.endKind {
	case 0:
		vfAssert(status == 0, "run/normal-return-is-zero")
	case 1:
		vfAssert(uint32(status) == vfSc.endCode, "run/exit-code-is-passed-through")
	default:
		vfAssert(status != 0, "run/trap-or-panic-is-nonzero")
	}
}
