//go:build verif

package apptest

import (
	"errors"
	"strings"
	"time"

	"wa-lang.org/wa/internal/3rdparty/wazero/sys"
	"wa-lang.org/wa/internal/config"
	"wa-lang.org/wa/internal/loader"
	"wa-lang.org/wa/internal/types"
	"wa-lang.org/wa/internal/wazero"
)

// C30 — `wa test` verdicts match the tests' contracts.
//
// runTest is the real code; the check driver regenerates apptest.go at run time
// with the environment calls (loader, compiler, assembler, WebAssembly runtime,
// clock, os.Exit, fmt.Printf) redirected to the vf* stubs below.

func init() { vfRegistry["VfH_test"] = VfH_test }

type vfExitT struct{ code int }

func vfExit(code int) { panic(vfExitT{code}) }

type vfFuncSpec struct {
	outputPanic bool
	expect      string
	// what running it yields
	errKind int // 0 nil, 1 exit(code), 2 other error
	code    uint32
	outKind int // 0 stdout equals the expectation (or "panic: <expect> (pos)" for panic tests), 1 something else, 2 empty
}

var vfSc struct {
	loadErr, compileErr, asmErr, moduleErr bool
	tests, examples                        []vfFuncSpec
	calls                                  int
	printedFAIL, printedOK                 bool
}

func vfPrintf(format string, a ...interface{}) (int, error) {
	if strings.HasPrefix(format, "FAIL ") {
		vfSc.printedFAIL = true
	}
	if strings.HasPrefix(format, "ok ") {
		vfSc.printedOK = true
	}
	return 0, nil
}

var vfErrX = errors.New("x")

func vfInfo(name string, l []vfFuncSpec) []loader.TestFuncInfo {
	var out []loader.TestFuncInfo
	for i, s := range l {
		out = append(out, loader.TestFuncInfo{Name: name + string(rune('0'+i)), Output: s.expect, OutputPanic: s.outputPanic})
	}
	return out
}

func vfLoadProgram(cfg *config.Config, pkgpath string) (*loader.Program, error) {
	if vfSc.loadErr {
		return nil, vfErrX
	}
	pkg := &loader.Package{Pkg: types.NewPackage("p", "p", false), TestInfo: &loader.TestInfo{
		Files: []string{"p_test.wa"}, Tests: vfInfo("Test", vfSc.tests), Examples: vfInfo("Example", vfSc.examples)}}
	return &loader.Program{Cfg: cfg, Manifest: &config.Manifest{MainPkg: "p"}, Pkgs: map[string]*loader.Package{"p": pkg}}, nil
}
func vfCompile(prog *loader.Program) (string, error) {
	if vfSc.compileErr {
		return "", vfErrX
	}
	return "(module)", nil
}
func vfToJson() []byte { return nil }
func vfWat2Wasm(name string, src []byte) ([]byte, error) {
	if vfSc.asmErr {
		return nil, vfErrX
	}
	return []byte{0}, nil
}
func vfBuildModule(name string, wasm, fset []byte, args ...string) (*wazero.Module, error) {
	if vfSc.moduleErr {
		return nil, vfErrX
	}
	return &wazero.Module{}, nil
}
func vfClose(m *wazero.Module) error { return nil }
func vfNow() time.Time               { return time.Time{} }
func vfSince(t time.Time) time.Duration { return 0 }
func vfMatch(pattern, name string) (bool, error) { return true, nil }

func vfRunFunc(m *wazero.Module, name string) ([]uint64, []byte, []byte, error) {
	var s vfFuncSpec
	k := vfSc.calls
	vfSc.calls++
	if k < len(vfSc.tests) {
		s = vfSc.tests[k]
	} else {
		s = vfSc.examples[k-len(vfSc.tests)]
	}
	var stdout string
	switch s.outKind {
	case 0:
		if s.outputPanic {
			stdout = "panic: " + s.expect + " (p.wa:1:1)\n"
		} else {
			stdout = s.expect + "\n"
		}
	case 1:
		stdout = "something else\n"
	}
	var err error
	switch s.errKind {
	case 1:
		err = sys.NewExitError("t", s.code)
	case 2:
		err = vfErrX
	}
	return nil, []byte(stdout), nil, err
}

// the contract of one test / example function
func vfMeets(s vfFuncSpec) bool {
	if s.outputPanic {
		return s.errKind == 1 && s.code != 0 && s.outKind == 0
	}
	if s.errKind != 0 {
		return false
	}
	return s.expect == "" || s.outKind == 0
}

func vfSpec(name string) vfFuncSpec {
	s := vfFuncSpec{}
	s.outputPanic = vfChoice(name+".panicTest", 2) == 1
	if vfChoice(name+".hasExpect", 2) == 1 || s.outputPanic {
		s.expect = "want"
	}
	s.errKind = vfChoice(name+".err", 3)
	s.code = vfU32(name + ".code")
	s.outKind = vfChoice(name+".out", 3)
	return s
}

// Cases: (number of tests, number of examples) in {1,2} x {0,1}.
func VfN_test() int { return 4 }

func VfH_test() {
	k := vfCase()
	nt, ne := 1+k%2, k/2
	vfNote("case:tests=" + string(rune('0'+nt)) + ",examples=" + string(rune('0'+ne)))
	vfSc.tests, vfSc.examples = nil, nil
	names := []string{"t0", "t1"}
	vfSc.loadErr, vfSc.compileErr, vfSc.asmErr, vfSc.moduleErr = false, false, false, false
	setup := vfChoice("setupFailure", 5)
	switch setup {
	case 1:
		vfSc.loadErr = true
	case 2:
		vfSc.compileErr = true
	case 3:
		vfSc.asmErr = true
	case 4:
		vfSc.moduleErr = true
	}
	for i := 0; i < nt; i++ {
		if setup != 0 {
			vfSc.tests = append(vfSc.tests, vfFuncSpec{}) // never run: one fixed specification is enough
		} else {
			vfSc.tests = append(vfSc.tests, vfSpec(names[i]))
		}
	}
	if ne == 1 {
		if setup != 0 {
			vfSc.examples = append(vfSc.examples, vfFuncSpec{})
		} else {
			vfSc.examples = append(vfSc.examples, vfSpec("e0"))
		}
	}
	vfSc.calls, vfSc.printedFAIL, vfSc.printedOK = 0, false, false

	status, exited := 0, false
	func() {
		defer func() {
			if r := recover(); r != nil {
				e, ok := r.(vfExitT)
				if !ok {
					panic(r)
				}
				status, exited = e.code, true
			}
		}()
		runTest(&config.Config{}, "p", "")
	}()
	_ = exited
	vfObserve("status", uint64(uint32(status)))
	vfObserve("fail", vfB2U(vfSc.printedFAIL))
	vfObserve("ok", vfB2U(vfSc.printedOK))

	if vfSc.loadErr || vfSc.compileErr || vfSc.asmErr || vfSc.moduleErr {
		vfAssert(status != 0 && !vfSc.printedOK, "test/setup-failure-is-nonzero")
		return
	}
	all := true
	for _, s := range vfSc.tests {
		all = all && vfMeets(s)
	}
	for _, s := range vfSc.examples {
		all = all && vfMeets(s)
	}
	if all {
		vfAssert(status == 0 && vfSc.printedOK && !vfSc.printedFAIL, "test/all-contracts-met-is-ok-and-zero")
	} else {
		vfAssert(status != 0 && !vfSc.printedOK, "test/any-failure-is-nonzero-and-not-ok")
		vfAssert(vfSc.printedFAIL, "test/any-failure-prints-FAIL")
	}
}
