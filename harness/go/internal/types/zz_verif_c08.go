//go:build verif

package types

import (
	"wa-lang.org/wa/internal/ast"
	"wa-lang.org/wa/internal/parser"
	"wa-lang.org/wa/internal/token"
)

// C08 — the type checker returns (a package and errors) on declaration skeletons: a struct type that
// mentions itself through every kind of element type (array lengths are one arbitrary byte), used in
// every kind of operation; no panic and termination (a recursion deeper than the executor's call-depth
// bound counts as non-termination: natively it ends the process with a stack overflow).

func init() { vfRegistry["VfH_tc_decl"] = VfH_tc_decl }

// "#" stands for the arbitrary byte
var vfTcElems = []string{"T", "*T", "[]T", "[#]T", "[#]*T", "map[i32]T", "map[T]i32", "func() => T", "struct{ b: T }", "struct{ b: *T }", "interface{}", "[2][#]T", "[#]struct{ c: T }"}
var vfTcOps = []string{"println(x == y)", "x = y", "println(len(x.a))", "z := x; _ = z", "println(x.a)", "m := map[T]i32{}; m[x] = 1", "i: interface{} = x; _ = i", "a := [2]T{}; println(a == a)"}

func VfN_tc_decl() int { return len(vfTcElems) * len(vfTcOps) }

func VfH_tc_decl() {
	k := vfCase()
	el, op := vfTcElems[k/len(vfTcOps)], vfTcOps[k%len(vfTcOps)]
	name := []byte(el + "/" + op)
	for i, ch := range name {
		if ch == ' ' {
			name[i] = '_'
		}
	}
	vfNote("case:" + string(name))
	head, tail := "type T :struct {\n\ta: ", "\n}\n\nfunc main {\n\tx, y: T\n\t"+op+"\n}\n"
	var src []byte
	src = append(src, head...)
	for i := 0; i < len(el); i++ {
		if el[i] == '#' {
			src = append(src, vfBytes("d", 1)[0])
		} else {
			src = append(src, el[i])
		}
	}
	src = append(src, tail...)
	p := vfCatch(func() {
		fset := token.NewFileSet()
		f, err := parser.ParseFile(nil, fset, "a.wa", src, parser.AllErrors)
		if f == nil {
			_ = err
			return
		}
		conf := Config{Error: func(err error) {}}
		conf.Check("main", fset, []*ast.File{f}, nil)
	})
	vfObserve("panicked", vfB2U(p))
	vfAssert(!p, "typecheck/no-panic")
}
