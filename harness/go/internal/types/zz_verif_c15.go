//go:build verif

package types

import (
	"math/big"

	"wa-lang.org/wa/internal/constant"
	"wa-lang.org/wa/internal/token"
)

// C15 (second half) — a constant is rejected as overflowing exactly when its
// exact value is not representable in the target integer type. Wa sizes:
// int/uint/uintptr are 32 bits (Config.Sizes == nil -> "wasm").

func init() {
	vfRegistry["VfH_repr"] = VfH_repr
}

var vfKinds = []BasicKind{Int, Int8, Int16, Int32, Int64, Uint, Uint8, Uint16, Uint32, Uint64, Uintptr, UntypedInt}
var vfKindNames = []string{"int", "int8", "int16", "int32", "int64", "uint", "uint8", "uint16", "uint32", "uint64", "uintptr", "untyped-int"}

func VfN_repr() int { return len(vfKinds) }

func vfBounds(k BasicKind) (lo, hi *big.Int, unbounded bool) {
	s := func(bits uint) (*big.Int, *big.Int) {
		h := new(big.Int).Lsh(big.NewInt(1), bits-1)
		l := new(big.Int).Neg(h)
		return l, h.Sub(h, big.NewInt(1))
	}
	u := func(bits uint) (*big.Int, *big.Int) {
		h := new(big.Int).Lsh(big.NewInt(1), bits)
		return big.NewInt(0), h.Sub(h, big.NewInt(1))
	}
	switch k {
	case Int, Int32:
		lo, hi = s(32)
	case Int8:
		lo, hi = s(8)
	case Int16:
		lo, hi = s(16)
	case Int64:
		lo, hi = s(64)
	case Uint, Uintptr, Uint32:
		lo, hi = u(32)
	case Uint8:
		lo, hi = u(8)
	case Uint16:
		lo, hi = u(16)
	case Uint64:
		lo, hi = u(64)
	default:
		return nil, nil, true
	}
	return lo, hi, false
}

func VfH_repr() {
	k := vfCase()
	kind := vfKinds[k]
	vfNote("case:" + vfKindNames[k])
	a := vfI64("a")
	b := vfI64("b")
	// exact value a+b ranges over [-2^64, 2^64-2]: int64Val and both signs of intVal
	x := constant.BinaryOp(constant.MakeInt64(a), token.ADD, constant.MakeInt64(b))
	sum := new(big.Int).Add(big.NewInt(a), big.NewInt(b))
	check := &Checker{conf: &Config{}}
	var got bool
	p := vfCatch(func() { got = representableConst(x, check, Typ[kind], nil) })
	vfAssert(!p, "repr/no-panic")
	vfObserve("got", vfB2U(got))
	lo, hi, unb := vfBounds(kind)
	want := unb || (lo.Cmp(sum) <= 0 && sum.Cmp(hi) <= 0)
	vfAssert(got == want, "repr/representable-iff-in-range")
}
