//go:build verif

package token

// C23 — source positions map to the line/column obtained by counting newlines
// and bytes, and survive FileSet.Write / FileSet.Read.

func init() {
	vfRegistry["VfH_pos"] = VfH_pos
	vfRegistry["VfH_addline"] = VfH_addline
}

// oracle: count newlines and bytes
func vfLineCol(content []byte, off int) (line, col int) {
	line, col = 1, 1
	for i := 0; i < off; i++ {
		if content[i] == '\n' {
			line++
			col = 1
		} else {
			col++
		}
	}
	return
}

func vfSamePos(a, b Position) bool {
	return a.Filename == b.Filename && a.Offset == b.Offset && a.Line == b.Line && a.Column == b.Column
}

// Cases: file a has 0..4 bytes, file b has 0..2 bytes.
func VfN_pos() int { return 5 * 3 }

func VfH_pos() {
	k := vfCase()
	n1, n2 := k%5, k/5
	vfNote("case:len=" + string(rune('0'+n1)) + "+" + string(rune('0'+n2)))
	c1 := vfBytes("a", n1)
	c2 := vfBytes("b", n2)
	fset := NewFileSet()
	// file a is registered with spare capacity (as the LSP/playground do for files that
	// are edited in place) and an arbitrary initial size, then given its content
	isz := vfInt("initialSize")
	vfAssume(isz >= 0 && isz <= n1)
	f1 := fset.AddFileWithCap("a.wa", -1, isz, 4)
	f1.SetLinesForContent(c1)
	f2 := fset.AddFile("b.wa", -1, n2)
	f2.SetLinesForContent(c2)

	// a position in file a or b (offset 0..len, the end position included)
	inB := vfBool("inB")
	off := vfInt("off")
	var p Pos
	var wantLine, wantCol int
	var wantName string
	if inB {
		vfAssume(off >= 0 && off <= n2)
		p = f2.Pos(off)
		wantLine, wantCol = vfLineCol(c2, off)
		wantName = "b.wa"
	} else {
		vfAssume(off >= 0 && off <= n1)
		p = f1.Pos(off)
		wantLine, wantCol = vfLineCol(c1, off)
		wantName = "a.wa"
	}
	pos := fset.Position(p)
	vfObserve("line", uint64(pos.Line))
	vfObserve("col", uint64(pos.Column))
	var fl *File
	var content []byte
	if inB {
		fl, content = f2, c2
	} else {
		fl, content = f1, c1
	}
	// Two conventions inherited from go/token get their own labels so that a finding
	// about them cannot mask ordinary positions: an empty file has no line table at
	// all, and the end position right after a final newline stays on the last line.
	zone := ""
	if len(content) == 0 {
		zone = "@empty-file"
	} else if off == len(content) && content[len(content)-1] == '\n' {
		zone = "@eof-after-final-newline"
	}
	vfAssert(pos.Filename == wantName && pos.Offset == off, "pos/file-and-offset")
	if zone == "" {
		vfAssert(pos.Line == wantLine && pos.Column == wantCol, "pos/line-and-column-count-newlines-and-bytes")
		vfAssert(fl.Offset(p) == off && fl.Line(p) == wantLine && fset.File(p) == fl, "pos/offset-line-file-accessors")
	} else {
		vfAssert(pos.Line == wantLine && pos.Column == wantCol, "pos/line-and-column-count-newlines-and-bytes"+zone)
		vfAssert(fl.Offset(p) == off && fset.File(p) == fl, "pos/offset-line-file-accessors")
	}
	// serialise and read back into a fresh file set: every Pos value maps as before
	var saved serializedFileSet
	werr := fset.Write(func(data interface{}) error {
		saved = data.(serializedFileSet)
		return nil
	})
	fset2 := NewFileSet()
	rerr := fset2.Read(func(x interface{}) error {
		*(x.(*serializedFileSet)) = saved
		return nil
	})
	vfAssert(werr == nil && rerr == nil, "ser/no-error")
	q := Pos(vfInt("q"))
	vfAssume(int(q) >= 0 && int(q) <= fset.Base()+1)
	vfAssert(vfSamePos(fset.Position(q), fset2.Position(q)), "ser/every-position-preserved")
	vfAssert(vfSamePos(fset.PositionFor(q, false), fset2.PositionFor(q, false)), "ser/every-unadjusted-position-preserved")
	vfAssert(fset2.Base() == fset.Base(), "ser/base-preserved")
}

// The scanner's way of building the line table: AddLine(offset of the byte after each newline).
func VfN_addline() int { return 6 }

func VfH_addline() {
	n := vfCase()
	c := vfBytes("a", n)
	fset := NewFileSet()
	f := fset.AddFile("a.wa", -1, n)
	for i, b := range c {
		if b == '\n' {
			f.AddLine(i + 1)
		}
	}
	off := vfInt("off")
	vfAssume(off >= 0 && off <= n)
	pos := fset.Position(f.Pos(off))
	wl, wc := vfLineCol(c, off)
	vfObserve("line", uint64(pos.Line))
	if n > 0 && off == n && c[n-1] == '\n' {
		vfAssert(pos.Line == wl && pos.Column == wc && pos.Offset == off, "addline/line-and-column-count-newlines-and-bytes@eof-after-final-newline")
	} else {
		vfAssert(pos.Line == wl && pos.Column == wc && pos.Offset == off, "addline/line-and-column-count-newlines-and-bytes")
	}
	// LineStart is the inverse on line starts
	ln := vfInt("ln")
	vfAssume(ln >= 1 && ln <= f.LineCount())
	ls := f.LineStart(ln)
	lp := fset.Position(ls)
	vfAssert(lp.Line == ln && lp.Column == 1, "addline/linestart-is-column-one-of-that-line")
}
