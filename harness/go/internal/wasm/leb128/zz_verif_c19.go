//go:build verif

package leb128

import "io"

// C19 — LEB128 round trip and decoder limits.
//
// Reference: the uN / sN productions of the WebAssembly binary format
// (spec 5.2.2), written directly as a decoder.

func init() {
	vfRegistry["VfH_encU32"] = VfH_encU32
	vfRegistry["VfH_encU64"] = VfH_encU64
	vfRegistry["VfH_encI32"] = VfH_encI32
	vfRegistry["VfH_encI64"] = VfH_encI64
	vfRegistry["VfH_encI33"] = VfH_encI33
	vfRegistry["VfH_decU32"] = VfH_decU32
	vfRegistry["VfH_decI32"] = VfH_decI32
	vfRegistry["VfH_decI33"] = VfH_decI33
	vfRegistry["VfH_decI64"] = VfH_decI64
}

// uN ::= n:byte (n < 2^7 and n < 2^N) => n | n:byte m:u(N-7) (n >= 2^7 and N > 7) => 2^7*m + (n-2^7)
func vfRefU(buf []byte, N int) (val uint64, n int, ok bool) {
	shift := uint(0)
	rem := N
	for i := 0; i < len(buf); i++ {
		b := buf[i]
		if b < 0x80 {
			if rem < 7 && uint(b) >= uint(1)<<uint(rem) {
				return 0, 0, false
			}
			return val | uint64(b)<<shift, i + 1, true
		}
		if rem <= 7 {
			return 0, 0, false
		}
		val |= uint64(b&0x7f) << shift
		shift += 7
		rem -= 7
	}
	return 0, 0, false
}

// sN ::= n (n < 2^6 and n < 2^(N-1)) => n | n (2^6 <= n < 2^7 and n >= 2^7-2^(N-1)) => n-2^7
//      | n m:s(N-7) (n >= 2^7 and N > 7) => 2^7*m + (n-2^7)
func vfRefS(buf []byte, N int) (val int64, n int, ok bool) {
	shift := uint(0)
	rem := N
	for i := 0; i < len(buf); i++ {
		b := buf[i]
		if b < 0x80 {
			if b < 0x40 {
				if rem < 8 && uint(b) >= uint(1)<<uint(rem-1) {
					return 0, 0, false
				}
				val |= int64(b) << shift
			} else {
				if rem < 8 && uint(b) < 128-uint(1)<<uint(rem-1) {
					return 0, 0, false
				}
				val |= (int64(b) - 128) << shift
			}
			return val, i + 1, true
		}
		if rem <= 7 {
			return 0, 0, false
		}
		val |= int64(b&0x7f) << shift
		shift += 7
		rem -= 7
	}
	return 0, 0, false
}

type vfReader struct {
	b []byte
	i int
}

func (r *vfReader) ReadByte() (byte, error) {
	if r.i >= len(r.b) {
		return 0, io.EOF
	}
	c := r.b[r.i]
	r.i++
	return c, nil
}

func vfMinimalU(enc []byte) bool {
	n := len(enc)
	return n >= 1 && (n == 1 || enc[n-1] != 0)
}

func vfMinimalS(enc []byte) bool {
	n := len(enc)
	if n < 1 {
		return false
	}
	if n == 1 {
		return true
	}
	last, prev := enc[n-1], enc[n-2]
	if last == 0x00 && prev&0x40 == 0 {
		return false
	}
	if last == 0x7f && prev&0x40 != 0 {
		return false
	}
	return true
}

func vfObsBytes(name string, b []byte) {
	var v uint64
	for i := 0; i < len(b) && i < 8; i++ {
		v |= uint64(b[i]) << (8 * uint(i))
	}
	vfObserve(name+".len", uint64(len(b)))
	vfObserve(name+".lo8", v)
}

func VfH_encU32() {
	v := vfU32("v")
	var enc []byte
	p := vfCatch(func() { enc = EncodeUint32(v) })
	vfAssert(!p, "encU32/no-panic")
	vfObsBytes("enc", enc)
	vfAssert(len(enc) >= 1 && len(enc) <= 5, "encU32/len<=5")
	rv, rn, rok := vfRefU(enc, 32)
	vfAssert(rok && rv == uint64(v) && rn == len(enc), "encU32/grammar-decodes-to-v")
	vfAssert(vfMinimalU(enc), "encU32/minimal")
	dv, dn, derr := LoadUint32(enc)
	vfAssert(derr == nil && dv == v && dn == uint64(len(enc)), "encU32/LoadUint32-roundtrip")
	dv2, dn2, derr2 := DecodeUint32(&vfReader{b: enc})
	vfAssert(derr2 == nil && dv2 == v && dn2 == uint64(len(enc)), "encU32/DecodeUint32-roundtrip")
}

func VfH_encU64() {
	v := vfU64("v")
	var enc []byte
	p := vfCatch(func() { enc = EncodeUint64(v) })
	vfAssert(!p, "encU64/no-panic")
	vfObsBytes("enc", enc)
	vfAssert(len(enc) >= 1 && len(enc) <= 10, "encU64/len<=10")
	rv, rn, rok := vfRefU(enc, 64)
	vfAssert(rok && rv == v && rn == len(enc), "encU64/grammar-decodes-to-v")
	vfAssert(vfMinimalU(enc), "encU64/minimal")
}

func VfH_encI32() {
	v := vfI32("v")
	var enc []byte
	p := vfCatch(func() { enc = EncodeInt32(v) })
	vfAssert(!p, "encI32/no-panic")
	vfObsBytes("enc", enc)
	vfAssert(len(enc) >= 1 && len(enc) <= 5, "encI32/len<=5")
	rv, rn, rok := vfRefS(enc, 32)
	vfAssert(rok && rv == int64(v) && rn == len(enc), "encI32/grammar-decodes-to-v")
	vfAssert(vfMinimalS(enc), "encI32/minimal")
	dv, dn, derr := LoadInt32(enc)
	vfAssert(derr == nil && dv == v && dn == uint64(len(enc)), "encI32/LoadInt32-roundtrip")
	dv2, dn2, derr2 := DecodeInt32(&vfReader{b: enc})
	vfAssert(derr2 == nil && dv2 == v && dn2 == uint64(len(enc)), "encI32/DecodeInt32-roundtrip")
}

func VfH_encI64() {
	v := vfI64("v")
	var enc []byte
	p := vfCatch(func() { enc = EncodeInt64(v) })
	vfAssert(!p, "encI64/no-panic")
	vfObsBytes("enc", enc)
	vfAssert(len(enc) >= 1 && len(enc) <= 10, "encI64/len<=10")
	rv, rn, rok := vfRefS(enc, 64)
	vfAssert(rok && rv == v && rn == len(enc), "encI64/grammar-decodes-to-v")
	vfAssert(vfMinimalS(enc), "encI64/minimal")
	dv, dn, derr := LoadInt64(enc)
	vfAssert(derr == nil && dv == v && dn == uint64(len(enc)), "encI64/LoadInt64-roundtrip")
	dv2, dn2, derr2 := DecodeInt64(&vfReader{b: enc})
	vfAssert(derr2 == nil && dv2 == v && dn2 == uint64(len(enc)), "encI64/DecodeInt64-roundtrip")
}

// 33-bit values (block types) are written with the 64-bit encoder.
func VfH_encI33() {
	v := vfI64("v")
	vfAssume(v >= -(1<<32) && v < (1<<32))
	var enc []byte
	p := vfCatch(func() { enc = EncodeInt64(v) })
	vfAssert(!p, "encI33/no-panic")
	vfObsBytes("enc", enc)
	vfAssert(len(enc) >= 1 && len(enc) <= 5, "encI33/len<=5")
	rv, rn, rok := vfRefS(enc, 33)
	vfAssert(rok && rv == v && rn == len(enc), "encI33/grammar-decodes-to-v")
	dv, dn, derr := DecodeInt33AsInt64(&vfReader{b: enc})
	vfAssert(derr == nil && dv == v && dn == uint64(len(enc)), "encI33/DecodeInt33AsInt64-roundtrip")
}

// ---- decoders on arbitrary byte strings of length 0..max+1 ----

func VfH_decU32() {
	n := vfChoice("len", 7)
	buf := vfBytes("buf", n)
	rv, rn, rok := vfRefU(buf, 32)
	var dv uint32
	var dn uint64
	var derr error
	p := vfCatch(func() { dv, dn, derr = LoadUint32(buf) })
	vfAssert(!p, "decU32/Load-no-panic")
	vfObserve("ok", vfB2U(derr == nil))
	vfObserve("v", uint64(dv))
	vfObserve("n", dn)
	vfAssert((derr == nil) == rok, "decU32/Load-accepts-iff-grammar")
	vfAssert(derr != nil || (uint64(dv) == rv && dn == uint64(rn)), "decU32/Load-value-and-count")
	var ev uint32
	var en uint64
	var eerr error
	p2 := vfCatch(func() { ev, en, eerr = DecodeUint32(&vfReader{b: buf}) })
	vfAssert(!p2, "decU32/Decode-no-panic")
	vfAssert((eerr == nil) == rok, "decU32/Decode-accepts-iff-grammar")
	vfAssert(eerr != nil || (uint64(ev) == rv && en == uint64(rn)), "decU32/Decode-value-and-count")
}

func VfH_decI32() {
	n := vfChoice("len", 7)
	buf := vfBytes("buf", n)
	rv, rn, rok := vfRefS(buf, 32)
	var dv int32
	var dn uint64
	var derr error
	p := vfCatch(func() { dv, dn, derr = LoadInt32(buf) })
	vfAssert(!p, "decI32/Load-no-panic")
	vfObserve("ok", vfB2U(derr == nil))
	vfObserve("v", uint64(uint32(dv)))
	vfObserve("n", dn)
	vfAssert((derr == nil) == rok, "decI32/Load-accepts-iff-grammar")
	vfAssert(derr != nil || (int64(dv) == rv && dn == uint64(rn)), "decI32/Load-value-and-count")
	var ev int32
	var en uint64
	var eerr error
	p2 := vfCatch(func() { ev, en, eerr = DecodeInt32(&vfReader{b: buf}) })
	vfAssert(!p2, "decI32/Decode-no-panic")
	vfAssert((eerr == nil) == rok, "decI32/Decode-accepts-iff-grammar")
	vfAssert(eerr != nil || (int64(ev) == rv && en == uint64(rn)), "decI32/Decode-value-and-count")
}

func VfH_decI33() {
	n := vfChoice("len", 7)
	buf := vfBytes("buf", n)
	rv, rn, rok := vfRefS(buf, 33)
	var dv int64
	var dn uint64
	var derr error
	p := vfCatch(func() { dv, dn, derr = DecodeInt33AsInt64(&vfReader{b: buf}) })
	vfAssert(!p, "decI33/no-panic")
	vfObserve("ok", vfB2U(derr == nil))
	vfObserve("v", uint64(dv))
	vfObserve("n", dn)
	vfAssert((derr == nil) == rok, "decI33/accepts-iff-grammar")
	vfAssert(derr != nil || (dv == rv && dn == uint64(rn)), "decI33/value-and-count")
}

func VfH_decI64() {
	n := vfChoice("len", 12)
	buf := vfBytes("buf", n)
	rv, rn, rok := vfRefS(buf, 64)
	var dv int64
	var dn uint64
	var derr error
	p := vfCatch(func() { dv, dn, derr = LoadInt64(buf) })
	vfAssert(!p, "decI64/Load-no-panic")
	vfObserve("ok", vfB2U(derr == nil))
	vfObserve("v", uint64(dv))
	vfObserve("n", dn)
	vfAssert((derr == nil) == rok, "decI64/Load-accepts-iff-grammar")
	vfAssert(derr != nil || (dv == rv && dn == uint64(rn)), "decI64/Load-value-and-count")
	var ev int64
	var en uint64
	var eerr error
	p2 := vfCatch(func() { ev, en, eerr = DecodeInt64(&vfReader{b: buf}) })
	vfAssert(!p2, "decI64/Decode-no-panic")
	vfAssert((eerr == nil) == rok, "decI64/Decode-accepts-iff-grammar")
	vfAssert(eerr != nil || (ev == rv && en == uint64(rn)), "decI64/Decode-value-and-count")
}
