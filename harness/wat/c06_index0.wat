(module $c06index0
  ;; the only reference by index is to function 0, and only through a stand-alone export
  (func $a (result i32) i32.const 10)
  (func $dead (result i32) i32.const 30)
  (func $b (export "b") (result i32) i32.const 20)
  (export "first" (func 0))
)
