(module $c05decl
  (import "env" "hf" (func $env.hf (param i32 i64) (result i32)))
  (import "genv" "hg" (global $env.hg i32))
  (memory $memory 1 4)
  (table $tab 3 8 funcref)
  (type $sig0 (func))
  (type $sig2 (func (param i32 i64) (result i64)))
  (global $gi32 (mut i32) (i32.const -2147483648))
  (global $gi64 (mut i64) (i64.const -9223372036854775808))
  (global $gf32 (mut f32) (f32.const 1.5))
  (global $gf64 (mut f64) (f64.const -0.1))
  (global $gconst i32 (i32.const 42))
  (global $gexp (export "gexp") (mut i32) (i32.const 9))
  (data (i32.const 64) "abc\00\01\ff\"q\\\n\t")
  (data (i32.const 200) "\7f\80\fe")
  (elem (i32.const 1) $k1)
  (start $boot)
  (export "mem" (memory $memory))
  (export "k1alias" (func $k1))

  (func $boot
    i32.const 77
    global.set $gexp
  )
  (func $k1 (export "k1") (result i32) i32.const 1)

  (func $f32consts (export "f32consts") (param $i i32) (result f32)
    block $b4 block $b3 block $b2 block $b1 block $b0
      local.get $i
      br_table $b0 $b1 $b2 $b3 $b4
    end
    f32.const 0.1
    return
    end
    f32.const -0.0
    return
    end
    f32.const 3.4028234e38
    return
    end
    f32.const 1e-45
    return
    end
    f32.const 16777217
  )
  (func $f64consts (export "f64consts") (param $i i32) (result f64)
    block $b4 block $b3 block $b2 block $b1 block $b0
      local.get $i
      br_table $b0 $b1 $b2 $b3 $b4
    end
    f64.const 0.1
    return
    end
    f64.const -0.0
    return
    end
    f64.const 1.7976931348623157e308
    return
    end
    f64.const 5e-324
    return
    end
    f64.const 9007199254740993
  )
  (func $i64consts (export "i64consts") (param $i i32) (result i64)
    local.get $i
    if (result i64)
      i64.const 9223372036854775807
    else
      i64.const -1
    end
  )
  (func $globals (export "globals") (result i64)
    global.get $gi32
    i64.extend_i32_s
    global.get $gi64
    i64.xor
    global.get $gconst
    i64.extend_i32_u
    i64.add
    global.get $gexp
    i64.extend_i32_u
    i64.add
  )
  (func $fglobals (export "fglobals") (result f64)
    global.get $gf32
    f64.promote_f32
    global.get $gf64
    f64.add
  )
  (func $data (export "data") (param $a i32) (result i32)
    local.get $a
    i32.load8_u
  )
  (func $locals (export "locals") (param $a i32) (param i64) (result i64)
    (local $x i64) (local i32) (local $f f32) (local $d f64)
    local.get 1
    local.set $x
    local.get $a
    local.tee 3
    i64.extend_i32_u
    local.get $x
    i64.add
  )
  (func $blockres (export "blockres") (param $a i32) (result i32)
    block $o (result i32)
      loop $l (result i32)
        local.get $a
        if (result i32)
          i32.const 5
        else
          i32.const 6
        end
      end
    end
  )
  (func $sel (export "sel") (param $a i32) (param $b i64) (result i64)
    local.get $b
    i64.const 3
    local.get $a
    select
    drop
    local.get $a
    local.get $b
    call $env.hf
    i64.extend_i32_u
    global.get $env.hg
    i64.extend_i32_u
    i64.add
    nop
  )
  (func $misc (export "misc") (param $a i32) (result i32)
    memory.size
    local.get $a
    i32.add
    i32.const 100
    i32.const 64
    i32.const 4
    memory.copy
    i32.const 120
    i32.const 255
    i32.const 2
    memory.fill
    unreachable
  )
  ;; nine parameters of mixed types (the last two differ), eight and ten for comparison
  (func $nine (export "nine") (param i32 i32 i32 i32 i32 i32 i32 i64 f64) (result f64)
    local.get 8
    local.get 7
    f64.convert_i64_s
    f64.add
  )
  (func $eight (export "eight") (param i32 i32 i32 i32 i32 i32 i64 f64) (result f64)
    local.get 7
    local.get 6
    f64.convert_i64_s
    f64.add
  )
  (func $ten (export "ten") (param i32 i32 i32 i32 i32 i32 i32 i32 i64 f64) (result f64)
    local.get 9
    local.get 8
    f64.convert_i64_s
    f64.add
  )
  (func $nineres (export "nineres") (param i32) (result i32 i32 i32 i32 i32 i32 i32 i64 f64)
    local.get 0
    local.get 0
    local.get 0
    local.get 0
    local.get 0
    local.get 0
    local.get 0
    i64.const 7
    f64.const 2.5
  )
)
