(module $c06named
  (import "env" "used" (func $env.used (param i32) (result i32)))
  (import "env" "dead_only" (func $env.dead_only (param i32) (result i32)))
  (memory $memory 1)
  (global $g (mut i32) (i32.const 0))
  (table $tab 6 funcref)
  (elem (i32.const 1) $via_table $via_table2)
  (type $unop (func (param i32) (result i32)))
  (start $init)

  ;; reachable only through the start function
  (func $init
    i32.const 5
    call $init_helper
    global.set $g
  )
  (func $init_helper (param i32) (result i32) local.get 0 i32.const 3 i32.mul)

  ;; reachable only through the table
  (func $via_table (param i32) (result i32) local.get 0 call $leaf_a)
  (func $via_table2 (param i32) (result i32) local.get 0 i32.const 1 i32.shl)
  (func $leaf_a (param i32) (result i32) local.get 0 i32.const 11 i32.add)

  ;; dead: nothing refers to these (one calls an import, one calls a live function)
  (func $dead1 (param i32) (result i32) local.get 0 call $env.dead_only)
  (func $dead2 (param i32) (result i32) local.get 0 call $leaf_a call $dead1)
  (func $dead_rec (param i32) (result i32) local.get 0 call $dead_rec)

  ;; calls nested in block / loop / if / else
  (func $in_block (param i32) (result i32) local.get 0 i32.const 100 i32.add)
  (func $in_loop (param i32) (result i32) local.get 0 i32.const 200 i32.add)
  (func $in_then (param i32) (result i32) local.get 0 i32.const 300 i32.add)
  (func $in_else (param i32) (result i32) local.get 0 i32.const 400 i32.add)
  (func $deep (param i32) (result i32) local.get 0 i32.const 500 i32.add)

  (func $nested (export "nested") (param $x i32) (result i32)
    (local $r i32)
    block $b
      local.get $x
      call $in_block
      local.set $r
      loop $l
        local.get $r
        call $in_loop
        local.set $r
        local.get $x
        i32.const 1
        i32.and
        if
          local.get $r
          call $in_then
          local.set $r
        else
          local.get $r
          call $in_else
          local.set $r
          block $c
            loop $m
              local.get $r
              call $deep
              local.set $r
            end
          end
        end
      end
    end
    local.get $r
  )

  (func $indirect (export "indirect") (param $x i32) (param $i i32) (result i32)
    local.get $x
    local.get $i
    call_indirect (type $unop)
  )

  (func $host (export "host") (param $x i32) (result i32)
    local.get $x
    call $env.used
    global.get $g
    i32.add
  )

  ;; moves a table entry: slot 3 := slot (i), then calls slot 3
  (func $move (export "move") (param $x i32) (param $i i32) (result i32)
    i32.const 3
    local.get $i
    table.get $tab
    table.set $tab
    local.get $x
    i32.const 3
    call_indirect (type $unop)
  )

  (func $getg (export "getg") (result i32) global.get $g)
)
