(module $c06index
  (memory $memory 1)
  (table 4 funcref)
  (elem (i32.const 0) 1 $named)
  (type $unop (func (param i32) (result i32)))

  ;; function 0: dead and unnamed
  (func (param i32) (result i32) local.get 0 i32.const 1 i32.add)
  ;; function 1: unnamed, reachable through the table by index
  (func (param i32) (result i32) local.get 0 i32.const 2 i32.add)
  ;; function 2: dead and named
  (func $dead (param i32) (result i32) local.get 0 i32.const 3 i32.add)
  ;; function 3
  (func $named (param i32) (result i32) local.get 0 i32.const 4 i32.add)
  ;; function 4: unnamed with an inline export, calls by name
  (func (export "byindex") (param i32) (result i32)
    local.get 0
    call $named
  )
  ;; function 5
  (func $ind (export "ind") (param i32) (param i32) (result i32)
    local.get 0
    local.get 1
    call_indirect (type $unop)
  )
  (export "third" (func 3))
)
