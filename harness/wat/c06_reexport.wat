(module $reexp
  (import "env" "host" (func $host (param i32) (result i32)))
  (import "env" "unused" (func $unused (param i32) (result i32)))
  (func $dead (result i32) i32.const 1)
  (func $f (export "f") (param i32) (result i32) local.get 0 i32.const 1 i32.add)
  (export "h" (func $host))
)
