(module $c06indexelem
  ;; the only reference by index sits after a named entry in an elem segment; a dead function precedes it
  (table 2 funcref)
  (type $t (func (result i32)))
  (func $unused (result i32) i32.const 1)
  (func $ten (result i32) i32.const 10)
  (func $twenty (result i32) i32.const 20)
  (func $thirty (result i32) i32.const 30)
  (elem (i32.const 0) $ten 2)
  (func $dispatch (export "dispatch") (param i32) (result i32)
    local.get 0
    call_indirect (type $t)
  )
)
