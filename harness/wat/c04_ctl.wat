(module $c04ctl
  (memory $memory 1 3)
  (global $g (mut i32) (i32.const 7))
  (table 4 funcref)
  (elem (i32.const 1) $t_add $t_sub)
  (type $binop (func (param i32 i32) (result i32)))

  (func $t_add (param i32 i32) (result i32) local.get 0 local.get 1 i32.add)
  (func $t_sub (param i32 i32) (result i32) local.get 0 local.get 1 i32.sub)

  ;; nested blocks: br to depth 0, 1, 2 selected by the argument
  (func $brdepth (export "brdepth") (param $x i32) (result i32)
    (local $r i32)
    block $a
      block $b
        block $c
          local.get $x
          i32.const 1
          i32.eq
          br_if $c
          local.get $x
          i32.const 2
          i32.eq
          br_if $b
          local.get $x
          i32.const 3
          i32.eq
          br_if $a
          i32.const 40
          local.set $r
          br $a
        end
        i32.const 10
        local.set $r
        br $a
      end
      i32.const 20
      local.set $r
    end
    local.get $r
  )

  ;; br_table with default
  (func $table (export "table") (param $x i32) (result i32)
    block $d
      block $two
        block $one
          block $zero
            local.get $x
            br_table $zero $one $two $d
          end
          i32.const 100
          return
        end
        i32.const 101
        return
      end
      i32.const 102
      return
    end
    i32.const 199
  )

  ;; loop with a backward branch: sum 0..n-1 (n < 6 assumed by the harness)
  (func $loop (export "loop") (param $n i32) (result i32)
    (local $i i32) (local $s i32)
    block $out
      loop $top
        local.get $i
        local.get $n
        i32.ge_u
        br_if $out
        local.get $s
        local.get $i
        i32.add
        local.set $s
        local.get $i
        i32.const 1
        i32.add
        local.set $i
        br $top
      end
    end
    local.get $s
  )

  ;; if / else with a result, select, local.tee, drop
  (func $ifsel (export "ifsel") (param $a i32) (param $b i32) (result i32)
    (local $t i32)
    local.get $a
    local.get $b
    i32.lt_s
    if (result i32)
      local.get $b
      local.get $a
      i32.sub
    else
      local.get $a
      local.get $b
      i32.sub
    end
    local.tee $t
    drop
    local.get $t
    i32.const 1000
    local.get $a
    i32.const 0
    i32.ne
    select
  )

  ;; direct and indirect calls
  (func $calls (export "calls") (param $k i32) (param $a i32) (param $b i32) (result i32)
    local.get $a
    local.get $b
    call $t_sub
    local.get $a
    local.get $b
    local.get $k
    call_indirect (type $binop)
    i32.mul
  )

  ;; globals
  (func $glob (export "glob") (param $v i32) (result i32)
    global.get $g
    local.get $v
    global.set $g
    global.get $g
    i32.add
  )

  ;; memory.size / memory.grow
  (func $grow (export "grow") (param $d i32) (result i32)
    local.get $d
    memory.grow
    i32.const 16
    i32.shl
    memory.size
    i32.add
  )

  ;; constants at the encoding boundaries (LEB128 sign and length cases)
  (func $consts32 (export "consts32") (param $k i32) (result i32)
    block $d block $c7 block $c6 block $c5 block $c4 block $c3 block $c2 block $c1 block $c0
      local.get $k
      br_table $c0 $c1 $c2 $c3 $c4 $c5 $c6 $c7 $d
    end i32.const 63 return
    end i32.const 64 return
    end i32.const -64 return
    end i32.const -65 return
    end i32.const 8191 return
    end i32.const -8193 return
    end i32.const 2147483647 return
    end i32.const -2147483648 return
    end
    i32.const 0
  )
  (func $consts64 (export "consts64") (param $k i32) (result i64)
    block $d block $c5 block $c4 block $c3 block $c2 block $c1 block $c0
      local.get $k
      br_table $c0 $c1 $c2 $c3 $c4 $c5 $d
    end i64.const 64 return
    end i64.const -65 return
    end i64.const 4294967296 return
    end i64.const -4294967297 return
    end i64.const 9223372036854775807 return
    end i64.const -9223372036854775808 return
    end
    i64.const 0
  )
)
