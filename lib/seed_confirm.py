#!/usr/bin/env python3
"""Confirm a seeded change in a scratch worktree and file it under /verif/seeded/.
usage: seed_confirm.py <property> <src dir with patch.diff/demo_test.go/README.md> <name> [pkgdir]
Confirms: patch applies, go build ./..., full test suite passes with the patch,
demo fails with the patch and passes without it."""
import json, os, re, shutil, subprocess, sys, time
prop, src, name = sys.argv[1:4]
V = os.path.dirname(os.path.dirname(os.path.abspath(__file__)))
env = dict(os.environ, GOFLAGS="-mod=mod", GOPROXY="off", GOSUMDB="off", GOTOOLCHAIN="local")
wt = "/tmp/wtc-%s" % name
def sh(cmd, cwd=wt, check=False):
    r = subprocess.run(cmd, shell=True, cwd=cwd, env=env, capture_output=True, text=True)
    if check and r.returncode != 0:
        raise SystemExit("FAILED: %s\n%s" % (cmd, r.stdout + r.stderr))
    return r
subprocess.run("git -C /repo worktree remove --force %s 2>/dev/null; git -C /repo worktree add -q --detach %s HEAD" % (wt, wt), shell=True, check=True)
try:
    demo = open(os.path.join(src, "demo_test.go")).read()
    if len(sys.argv) > 4:
        pkgdir = sys.argv[4]
    else:
        m = re.search(r"((?:internal|api|cmd)/[A-Za-z0-9_/\-]+)", demo[:1500])
        pkgdir = m.group(1).rstrip("/")
    patch = os.path.join(src, "patch.diff")
    log = {}
    sh("git apply %s" % patch, check=True)
    log["build"] = sh("go build ./...", check=True).returncode
    t = sh("go test -vet=off -count=1 ./... 2>&1 | grep -v 'no test files' | grep -v '^ok' | head -20")
    log["suite_non_ok_lines"] = t.stdout.strip()
    if "FAIL" in t.stdout:
        raise SystemExit("existing suite fails with the patch:\n" + t.stdout)
    dst = os.path.join(wt, pkgdir, "zz_seed_demo_test.go")
    shutil.copy(os.path.join(src, "demo_test.go"), dst)
    r1 = sh("go test -vet=off -count=1 ./%s/ 2>&1 | tail -15" % pkgdir)
    with_patch_fails = ("FAIL" in r1.stdout) or ("panic" in r1.stdout)
    os.remove(dst)
    sh("git checkout -- .", check=True)
    shutil.copy(os.path.join(src, "demo_test.go"), dst)
    r2 = sh("go test -vet=off -count=1 ./%s/ 2>&1 | tail -5" % pkgdir)
    without_passes = r2.stdout.strip().startswith("ok") or "\nok" in r2.stdout
    os.remove(dst)
    print("with patch: demo fails =", with_patch_fails, "| without: demo passes =", without_passes)
    if not (with_patch_fails and without_passes):
        print(r1.stdout[-1500:], r2.stdout[-800:])
        raise SystemExit("NOT CONFIRMED")
    out = os.path.join(V, "seeded", name)
    os.makedirs(out, exist_ok=True)
    for f in ("patch.diff", "demo_test.go", "README.md"):
        if os.path.exists(os.path.join(src, f)):
            shutil.copy(os.path.join(src, f), os.path.join(out, f))
    meta = {"property": prop, "name": name, "demo_package_dir": pkgdir,
            "confirmed": {"date": time.strftime("%Y-%m-%d"), "patch_applies": True, "go_build": "ok",
                          "existing_suite_with_patch": "no FAIL lines", "demo_with_patch": "fails", "demo_without_patch": "passes",
                          "commands": ["git apply patch.diff", "go build ./...", "go test -vet=off -count=1 ./...",
                                       "cp demo_test.go %s/zz_seed_demo_test.go; go test -vet=off -count=1 ./%s/" % (pkgdir, pkgdir)]},
            "needs_to_manifest": "see README.md", "detected_by": None}
    json.dump(meta, open(os.path.join(out, "meta.json"), "w"), indent=1)
    print("filed", out)
finally:
    subprocess.run("git -C /repo worktree remove --force %s" % wt, shell=True)
