#!/usr/bin/env python3
"""Confirm a seeded change with an arbitrary demonstration command.
usage: seed_confirm_cmd.py <property> <src dir> <name> <setup shell> <demo shell>
Both shell strings run in the scratch worktree; {wt} and {src} are substituted. The demo must exit 0 on the
clean tree and non-zero with the patch applied."""
import json, os, shutil, subprocess, sys, time
prop, src, name, setup, demo = sys.argv[1:6]
V = os.path.dirname(os.path.dirname(os.path.abspath(__file__)))
env = dict(os.environ, GOFLAGS="-mod=mod", GOPROXY="off", GOSUMDB="off", GOTOOLCHAIN="local")
wt = "/tmp/wtc-%s" % name
def sh(cmd, check=False, timeout=2400):
    cmd = cmd.replace("{wt}", wt).replace("{src}", src)
    r = subprocess.run(cmd, shell=True, cwd=wt, env=env, capture_output=True, text=True, timeout=timeout)
    if check and r.returncode != 0:
        raise SystemExit("FAILED: %s\n%s" % (cmd, (r.stdout + r.stderr)[-2000:]))
    return r
subprocess.run("git -C /repo worktree remove --force %s 2>/dev/null; git -C /repo worktree add -q --detach %s HEAD" % (wt, wt), shell=True, check=True)
try:
    sh(setup, check=True)
    r2 = sh("timeout 900 sh -c '%s'" % demo)
    sh("git apply {src}/patch.diff", check=True)
    sh("go build ./...", check=True)
    t = sh("go test -vet=off -count=1 ./... 2>&1 | grep -v 'no test files' | grep -v '^ok' | head -20")
    if "FAIL" in t.stdout:
        raise SystemExit("existing suite fails with the patch:\n" + t.stdout)
    r1 = sh("timeout 900 sh -c '%s'" % demo)
    print("with patch: demo exit =", r1.returncode, "| without: demo exit =", r2.returncode)
    if not (r1.returncode != 0 and r2.returncode == 0):
        print(r1.stdout[-800:], r1.stderr[-400:], "----", r2.stdout[-800:], r2.stderr[-400:])
        raise SystemExit("NOT CONFIRMED")
    out = os.path.join(V, "seeded", name)
    if os.path.exists(out):
        shutil.rmtree(out)
    shutil.copytree(src, out, ignore=shutil.ignore_patterns("output_*"))
    if os.path.exists(os.path.join(out, "README.txt")):
        os.rename(os.path.join(out, "README.txt"), os.path.join(out, "README.md"))
    meta = {"property": prop, "name": name, "demo": {"setup": setup, "run": demo, "placeholders": "{wt} = worktree root, {src} = this directory"},
            "confirmed": {"date": time.strftime("%Y-%m-%d"), "patch_applies": True, "go_build": "ok",
                          "existing_suite_with_patch": "no FAIL lines", "demo_with_patch": "exit %d" % r1.returncode, "demo_without_patch": "exit 0",
                          "demo_output_with_patch": (r1.stdout + r1.stderr)[-600:]},
            "needs_to_manifest": "see README.md", "detected_by": None}
    json.dump(meta, open(os.path.join(out, "meta.json"), "w"), indent=1)
    print("filed", out)
finally:
    subprocess.run("git -C /repo worktree remove --force %s" % wt, shell=True)
