"""Generators for the WAT templates of the E2 checks."""
import re, os

TY = {"i": "i32", "I": "i64", "f": "f32", "F": "f64"}

def ops_from_harness(path):
    src = open(path).read()
    body = src[src.index("var vfOps = []vfOp{"):]
    body = body[:body.index("\n}\n")]
    return re.findall(r'\{"([a-z0-9_.]+)", "([iIfF]+)", "([iIfF]+)"\}', body)

def c04_ops_wat(ops):
    out = ["(module $c04ops"]
    for name, params, results in ops:
        p = " ".join("(param %s)" % TY[c] for c in params)
        r = " ".join("(result %s)" % TY[c] for c in results)
        gets = "\n".join("    local.get %d" % i for i in range(len(params)))
        out.append('  (func $f_%s (export "f_%s") %s %s\n%s\n    %s\n  )' % (name.replace(".", "_"), name.replace(".", "_"), p, r, gets, name))
    out.append(")")
    return "\n".join(out) + "\n"
