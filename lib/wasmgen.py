"""Generators for the WAT templates of the E2 checks."""
import re, os

TY = {"i": "i32", "I": "i64", "f": "f32", "F": "f64"}

def ops_from_harness(path):
    src = open(path).read()
    body = src[src.index("var vfOps = []vfOp{"):]
    body = body[:body.index("\n}\n")]
    return re.findall(r'\{"([a-z0-9_.]+)", "([iIfF]+)", "([iIfF]+)"\}', body)

def c04_ops_wat(ops):
    out = ["(module $c04ops"]
    for name, params, results in ops:
        p = " ".join("(param %s)" % TY[c] for c in params)
        r = " ".join("(result %s)" % TY[c] for c in results)
        gets = "\n".join("    local.get %d" % i for i in range(len(params)))
        out.append('  (func $f_%s (export "f_%s") %s %s\n%s\n    %s\n  )' % (name.replace(".", "_"), name.replace(".", "_"), p, r, gets, name))
    out.append(")")
    return "\n".join(out) + "\n"


LOADS = [("i32.load", 4, "i", False), ("i64.load", 8, "I", False), ("f32.load", 4, "f", False), ("f64.load", 8, "F", False),
         ("i32.load8_s", 1, "i", True), ("i32.load8_u", 1, "i", False), ("i32.load16_s", 2, "i", True), ("i32.load16_u", 2, "i", False),
         ("i64.load8_s", 1, "I", True), ("i64.load8_u", 1, "I", False), ("i64.load16_s", 2, "I", True), ("i64.load16_u", 2, "I", False),
         ("i64.load32_s", 4, "I", True), ("i64.load32_u", 4, "I", False)]
STORES = [("i32.store", 4, "i"), ("i64.store", 8, "I"), ("f32.store", 4, "f"), ("f64.store", 8, "F"),
          ("i32.store8", 1, "i"), ("i32.store16", 2, "i"), ("i64.store8", 1, "I"), ("i64.store16", 2, "I"), ("i64.store32", 4, "I")]
# (offset, align) immediates written in the text: none, small, multi-byte LEB offset, reduced alignment
MEMARGS = [(None, None), (3, None), (200, 1), (70000, None)]


def memarg_text(off, align):
    t = ""
    if off is not None:
        t += " offset=%d" % off
    if align is not None:
        t += " align=%d" % align
    return t


def c04_mem_wat():
    out = ["(module $c04mem", "  (memory $memory 2)"]
    for name, n, rt, signed in LOADS:
        for k, (off, al) in enumerate(MEMARGS):
            out.append('  (func (export "%s_%d") (param i32) (result %s)\n    local.get 0\n    %s%s\n  )' % (name.replace(".", "_"), k, TY[rt], name, memarg_text(off, al)))
    for name, n, vt in STORES:
        for k, (off, al) in enumerate(MEMARGS):
            out.append('  (func (export "%s_%d") (param i32) (param %s)\n    local.get 0\n    local.get 1\n    %s%s\n  )' % (name.replace(".", "_"), k, TY[vt], name, memarg_text(off, al)))
    out.append(")")
    return "\n".join(out) + "\n"


def c05_align_wat():
    """every load/store instruction with every valid alignment hint (powers of two up to the access width)"""
    out = ["(module $c05align", "  (memory $memory 1)"]
    for name, n, rt, signed in LOADS:
        al = 1
        while al <= n:
            out.append('  (func $%s_a%d (export "%s_a%d") (param i32) (result %s)\n    local.get 0\n    %s offset=8 align=%d\n  )' % (name.replace(".", "_"), al, name.replace(".", "_"), al, TY[rt], name, al))
            al *= 2
    for name, n, vt in STORES:
        al = 1
        while al <= n:
            out.append('  (func $%s_a%d (export "%s_a%d") (param i32) (param %s)\n    local.get 0\n    local.get 1\n    %s offset=8 align=%d\n  )' % (name.replace(".", "_"), al, name.replace(".", "_"), al, TY[vt], name, al))
            al *= 2
    out.append(")")
    return "\n".join(out) + "\n"


def c04_types_wat():
    """many distinct function types, so that the types of multi-value blocks get indices at the LEB128 boundaries
    (64 needs two bytes as a signed number, 128 as an unsigned one)"""
    out = ["(module $c04types"]
    tys = ["i32", "i64", "f32", "f64"]
    def sig(k):
        # k-th distinct parameter list over four value types (base-4 digits, length prefix)
        ps, n = [], k
        ln = 1
        while n >= 4 ** ln:
            n -= 4 ** ln
            ln += 1
        for _ in range(ln):
            ps.append(tys[n % 4])
            n //= 4
        return " ".join(ps)
    # 63 functions with pairwise distinct parameter lists take type indices 0..62; the exported functions' own
    # type is index 63 and the types of their multi-value blocks follow at 64, 65, 66
    for k in range(63):
        out.append("  (func $f%d (param %s))" % (k, sig(k)))
    for name, res in (("mv64", "i32 i64"), ("mv65", "i64 i32"), ("mv66", "f32 i32")):
        out.append('  (func $%s (export "%s") (result i32)\n    block (result %s)\n      %s\n    end\n    drop\n    drop\n    i32.const 1\n  )' % (
            name, name, res, "\n      ".join("%s.const 1" % t for t in res.split())))
    out.append(")")
    return "\n".join(out) + "\n"


def split_functions(wat_text):
    """Split a generated one-function-per-entry module into (header lines, [function texts])."""
    lines = wat_text.split("\n")
    head, funcs, cur = [], [], None
    for ln in lines[:-2] if lines[-1] == "" else lines[:-1]:
        if ln.startswith("  (func"):
            if cur is not None:
                funcs.append("\n".join(cur))
            cur = [ln]
        elif cur is not None:
            cur.append(ln)
        else:
            head.append(ln)
    if cur is not None:
        funcs.append("\n".join(cur))
    return head, funcs
