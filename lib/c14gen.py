"""Generator for C14: exported Wa wrappers around standard-library functions with scalar signatures,
and Go twins calling the Go standard library function each one is a port of."""
import c01gen

W = {"": ("uint", "32"), "8": ("u8", "8"), "16": ("u16", "16"), "32": ("u32", "32"), "64": ("u64", "64")}


DIV64_CLASSES = [0, 1, 8, 32, 62, 63]


def bits_templates():
    T = []
    def gofn(base, sfx):  # Wa's uint is 32 bits wide: the generic functions correspond to Go's 32-bit ones
        return "bits.%s%s" % (base, sfx if sfx else "32")
    for base in ["LeadingZeros", "TrailingZeros", "OnesCount", "Len"]:
        for sfx, (t, _) in W.items():
            T.append(("bits_%s%s" % (base, sfx), [("x", t)], "int", "return bits.%s%s(x)" % (base, sfx), "return int32(%s(x))" % gofn(base, sfx), []))
    for sfx, (t, _) in W.items():
        T.append(("bits_RotateLeft%s" % sfx, [("x", t), ("k", "int")], t, "return bits.RotateLeft%s(x, k)" % sfx, "return %s(x, int(k))" % gofn("RotateLeft", sfx), []))
        T.append(("bits_Reverse%s" % sfx, [("x", t)], t, "return bits.Reverse%s(x)" % sfx, "return %s(x)" % gofn("Reverse", sfx), []))
        if sfx != "8":
            T.append(("bits_ReverseBytes%s" % sfx, [("x", t)], t, "return bits.ReverseBytes%s(x)" % sfx, "return %s(x)" % gofn("ReverseBytes", sfx), []))
    for sfx in ["", "32", "64"]:
        t = W[sfx][0]
        for base, cin in (("Add", "carry"), ("Sub", "borrow")):
            for k, part in enumerate(["value", "carry"]):
                sel = "v, _" if k == 0 else "_, v"
                T.append(("bits_%s%s_%s" % (base, sfx, part), [("x", t), ("y", t), ("c", t)], t,
                          "%s := bits.%s%s(x, y, c)\n\treturn v" % (sel, base, sfx), "%s := %s(x, y, c)\n\treturn v" % (sel, gofn(base, sfx)), ["c <= 1"]))
        for k, part in enumerate(["hi", "lo"]):
            sel = "v, _" if k == 0 else "_, v"
            T.append(("bits_Mul%s_%s" % (sfx, part), [("x", t), ("y", t)], t,
                      "%s := bits.Mul%s(x, y)\n\treturn v" % (sel, sfx), "%s := %s(x, y)\n\treturn v" % (sel, gofn("Mul", sfx)), []))
        # the 128/64 division is symbolic-by-symbolic: the divisor's magnitude class (its number of leading zeros) is
        # enumerated for the 64-bit functions, everything else stays symbolic; the 32-bit ones are fully symbolic
        classes = [None] if sfx != "64" else DIV64_CLASSES
        for lz in classes:
            tag, pre = "", []
            if lz is not None:
                tag = "_lz%d" % lz
                top = 63 - lz
                # 8 free low bits in the divisor below its fixed top bit, 16 free bits in hi, the top and bottom byte of lo free
                if lz in (0, 1, 62, 63):
                    pre = ["r_y = 1<<%d | r_y&(1<<%d-1)&0xff" % (top, top), "y = r_y",
                           "r_hi &= 0xffff", "hi = r_hi", "r_lo = r_lo&0xff000000000000ff | 0x00123456789abc00", "lo = r_lo"]
                else:
                    # both halves of the divisor take part in the quotient-digit correction loops: these are beyond the
                    # solver with more than a dozen free bits (unknown at 120 s with 32), so the classes in the middle get 4 each
                    pre = ["r_y = 1<<%d | r_y&0xf | 0xfedcba90&(1<<%d-1)" % (top, top), "y = r_y",
                           "r_hi = r_hi&0xf | 0x7ffffff0&(1<<%d-1)" % top, "hi = r_hi", "r_lo = r_lo&0xf00000000000000f | 0x0123456789abcde0", "lo = r_lo"]
            for k, part in enumerate(["quo", "rem"]):
                sel = "v, _" if k == 0 else "_, v"
                T.append(("bits_Div%s_%s%s" % (sfx, part, tag), [("hi", t), ("lo", t), ("y", t)], t,
                          "%s := bits.Div%s(hi, lo, y)\n\treturn v" % (sel, sfx), "%s := %s(hi, lo, y)\n\treturn v" % (sel, gofn("Div", sfx)), [], None, pre))
            T.append(("bits_Rem%s%s" % (sfx, tag), [("hi", t), ("lo", t), ("y", t)], t, "return bits.Rem%s(hi, lo, y)" % sfx, "return %s(hi, lo, y)" % gofn("Rem", sfx), [], None, pre))
    return T


WA_HELPERS = """
func vtBytes(w: u32, n: u32) => []byte {
	b := []byte{byte(w), byte(w >> 8), byte(w >> 16), byte(w >> 24)}
	return b[:n%5]
}

func vtHash(s: string) => u32 {
	h := u32(len(s))
	for i := 0; i < len(s); i++ {
		h = h*31 + u32(s[i])
	}
	return h
}

func vtHashB(s: []byte) => u32 {
	h := u32(len(s))
	for i := 0; i < len(s); i++ {
		h = h*31 + u32(s[i])
	}
	return h
}
"""

GO_HELPERS = """
func vtBytes(w uint32, n uint32) []byte {
	b := []byte{byte(w), byte(w >> 8), byte(w >> 16), byte(w >> 24)}
	return b[:n%5]
}

func vtHash(s string) uint32 {
	h := uint32(len(s))
	for i := 0; i < len(s); i++ {
		h = h*31 + uint32(s[i])
	}
	return h
}

func vtHashB(s []byte) uint32 {
	h := uint32(len(s))
	for i := 0; i < len(s); i++ {
		h = h*31 + uint32(s[i])
	}
	return h
}
"""


def w2g(body):
    """Wa body -> Go body for the helper-based templates (types and := declarations are the only differences used)"""
    for a, b in (("u32(", "uint32("), ("u64(", "uint64("), ("i32(", "int32("), ("i64(", "int64("), ("u16(", "uint16("), ("u8(", "uint8("),
                 ("[]u16", "[]uint16"), ("[]i32", "[]int32")):
        body = body.replace(a, b)
    return body


def text_templates(tier):
    T = _text_templates()
    if tier == "quick":
        # the heaviest loops over data get one byte less in the quick tier (two less for Quote)
        out = []
        for t in T:
            t = list(t)
            if t[0] in ("strings_ToUpper_ToLower", "strings_TrimSpace_Fields"):
                continue  # thorough tier only (several minutes each)
            if t[0] == "strconv_Quote":
                t[3], t[4] = t[3].replace("vtBytes(w, n)", "vtBytes(w, n%3)"), t[4].replace("vtBytes(w, n)", "vtBytes(w, n%3)")
            elif t[0] in ("strings_ToUpper_ToLower", "strings_TrimSpace_Fields", "utf8_RuneCount", "utf8_RuneCountInString", "utf8_DecodeLastRune"):
                t[3], t[4] = t[3].replace("vtBytes(w, n)", "vtBytes(w, n%4)"), t[4].replace("vtBytes(w, n)", "vtBytes(w, n%4)")
            out.append(tuple(t))
        T = out
    else:
        # Quote walks the printability tables once per rune, ToUpper/ToLower/TrimSpace/Fields map rune by rune: three bytes in the thorough tier
        T = [tuple([t[0], t[1], t[2], t[3].replace("vtBytes(w, n)", "vtBytes(w, n%4)"), t[4].replace("vtBytes(w, n)", "vtBytes(w, n%4)")] + list(t[5:]))
             if t[0] in ("strconv_Quote", "strings_ToUpper_ToLower", "strings_TrimSpace_Fields") else t for t in T]
    return T


def _text_templates():
    """utf8, utf16, strconv, hashes, hex, binary, sort, strings, bytes on packed scalar arguments:
    w = up to four bytes (little end first), n%5 = how many of them are used"""
    T = []
    wn = [("w", "u32"), ("n", "u32")]
    def both(name, params, res, body, assume=(), zone=None):
        T.append((name, params, res, body, w2g(body), list(assume), zone))
    # unicode/utf8
    both("utf8_RuneLen", [("r", "i32")], "i32", "return i32(utf8.RuneLen(rune(r)))")
    both("utf8_ValidRune", [("r", "i32")], "bool", "return utf8.ValidRune(rune(r))")
    both("utf8_EncodeRune", [("r", "i32")], "u64", "buf := make([]byte, 4)\n\tk := utf8.EncodeRune(buf, rune(r))\n\treturn u64(k)<<32 | u64(buf[0]) | u64(buf[1])<<8 | u64(buf[2])<<16 | u64(buf[3])<<24")
    both("utf8_AppendRune", [("r", "i32")], "u32", "return vtHashB(utf8.AppendRune([]byte{'x'}, rune(r)))")
    both("utf8_DecodeRune", wn, "u64", "r, size := utf8.DecodeRune(vtBytes(w, n))\n\treturn u64(u32(r))<<8 | u64(size)")
    both("utf8_DecodeRuneInString", wn, "u64", "r, size := utf8.DecodeRuneInString(string(vtBytes(w, n)))\n\treturn u64(u32(r))<<8 | u64(size)")
    both("utf8_DecodeLastRune", wn, "u64", "r, size := utf8.DecodeLastRune(vtBytes(w, n))\n\treturn u64(u32(r))<<8 | u64(size)")
    both("utf8_FullRune", wn, "bool", "return utf8.FullRune(vtBytes(w, n))")
    both("utf8_RuneCount", wn, "i32", "return i32(utf8.RuneCount(vtBytes(w, n)))")
    both("utf8_RuneCountInString", wn, "i32", "return i32(utf8.RuneCountInString(string(vtBytes(w, n))))")
    both("utf8_Valid", wn, "bool", "return utf8.Valid(vtBytes(w, n))")
    both("utf8_ValidString", wn, "bool", "return utf8.ValidString(string(vtBytes(w, n)))")
    # unicode/utf16
    both("utf16_IsSurrogate", [("r", "i32")], "bool", "return utf16.IsSurrogate(rune(r))")
    both("utf16_EncodeRune", [("r", "i32")], "u64", "a, b := utf16.EncodeRune(rune(r))\n\treturn u64(u32(a))<<32 | u64(u32(b))")
    both("utf16_DecodeRune", [("a", "i32"), ("b", "i32")], "i32", "return i32(utf16.DecodeRune(rune(a), rune(b)))")
    both("utf16_Encode_Decode", [("r", "i32"), ("q", "i32")], "u32", "e := utf16.Encode([]rune{rune(r), rune(q)})\n\td := utf16.Decode(e)\n\th := u32(len(e))*1000 + u32(len(d))\n\tfor _, x := range e {\n\t\th = h*31 + u32(x)\n\t}\n\tfor _, x := range d {\n\t\th = h*31 + u32(x)\n\t}\n\treturn h")
    both("utf16_Decode_units", [("a", "u16"), ("b", "u16"), ("c", "u16")], "u32", "d := utf16.Decode([]u16{a, b, c})\n\th := u32(len(d))\n\tfor _, x := range d {\n\t\th = h*31 + u32(x)\n\t}\n\treturn h")
    both("utf16_Encode_runes", [("r", "i32"), ("q", "i32")], "u32", "e := utf16.Encode([]rune{rune(r), rune(q)})\n\th := u32(len(e))\n\tfor _, x := range e {\n\t\th = h*31 + u32(x)\n\t}\n\treturn h")
    # strconv
    both("strconv_FormatBool_ParseBool", wn, "u32", "v, err := strconv.ParseBool(string(vtBytes(w, n)))\n\th := vtHash(strconv.FormatBool(v))\n\tif err != nil {\n\t\th += 1000\n\t}\n\treturn h")
    both("strconv_Atoi", wn, "u64", "v, err := strconv.Atoi(string(vtBytes(w, n)))\n\th := u64(u32(v))\n\tif err != nil {\n\t\th |= 1 << 40\n\t}\n\treturn h")
    both("strconv_ParseUint_16", wn, "u64", "v, err := strconv.ParseUint(string(vtBytes(w, n)), 16, 16)\n\th := v\n\tif err != nil {\n\t\th |= 1 << 40\n\t}\n\treturn h")
    both("strconv_ParseUint_64", wn, "u64", "v, err := strconv.ParseUint(string(vtBytes(w, n)), 10, 64)\n\th := v\n\tif err != nil {\n\t\th |= 1 << 40\n\t}\n\treturn h")
    both("strconv_ParseInt_64", wn, "u64", "v, err := strconv.ParseInt(string(vtBytes(w, n)), 0, 64)\n\th := u64(v) & 0xffffffffff\n\tif err != nil {\n\t\th |= 1 << 40\n\t}\n\treturn h")
    both("strconv_ParseInt_8", wn, "u64", "v, err := strconv.ParseInt(string(vtBytes(w, n)), 10, 8)\n\th := u64(v) & 0xffff\n\tif err != nil {\n\t\th |= 1 << 40\n\t}\n\treturn h")
    both("strconv_ParseInt_16_base0", wn, "u64", "v, err := strconv.ParseInt(string(vtBytes(w, n)), 0, 16)\n\th := u64(v) & 0xfffff\n\tif err != nil {\n\t\th |= 1 << 40\n\t}\n\treturn h")
    both("strconv_Quote", wn, "u32", "return vtHash(strconv.Quote(string(vtBytes(w, n))))", zone=("w&0x80808080 != 0", "@non-ascii-input"))
    # hashes
    both("adler32_Checksum", wn, "u32", "return adler32.Checksum(vtBytes(w, n))")
    both("fnv_New32a", wn, "u32", "h := fnv.New32a()\n\th.Write(vtBytes(w, n))\n\treturn h.Sum32()")
    both("fnv_New64", wn, "u64", "h := fnv.New64()\n\th.Write(vtBytes(w, n))\n\treturn h.Sum64()")
    # encoding
    both("hex_EncodeToString", wn, "u32", "return vtHash(hex.EncodeToString(vtBytes(w, n)))")
    both("hex_DecodeString", wn, "u32", "b, err := hex.DecodeString(string(vtBytes(w, n)))\n\th := vtHashB(b)\n\tif err != nil {\n\t\th += 100000\n\t}\n\treturn h")
    both("binary_LittleEndian", [("w", "u32")], "u64", "b := vtBytes(w, 4)\n\tbinary.BigEndian.PutUint16(b[1:], binary.LittleEndian.Uint16(b))\n\treturn u64(binary.LittleEndian.Uint32(b))<<32 | u64(binary.BigEndian.Uint32(b))")
    both("base64_StdEncoding", wn, "u32", "return vtHash(base64.StdEncoding.EncodeToString(vtBytes(w, n)))")
    # sort
    both("sort_Ints", [("a", "i32"), ("b", "i32"), ("c", "i32")], "u32", "s := []int{int(a), int(b), int(c)}\n\tsort.Ints(s)\n\treturn u32(s[0])*7 + u32(s[1])*5 + u32(s[2])*3 + u32(sort.SearchInts(s, int(b)))")
    # strings / bytes
    both("strings_Index", [("w", "u32"), ("n", "u32"), ("c", "u8")], "i32", "return i32(strings.Index(string(vtBytes(w, n)), string([]byte{c})))*8 + i32(strings.LastIndexByte(string(vtBytes(w, n)), c))")
    both("strings_HasPrefix_Contains", [("w", "u32"), ("n", "u32"), ("c", "u8")], "u32", "s := string(vtBytes(w, n))\n\tt := string([]byte{c, 'a'})\n\th := u32(0)\n\tif strings.HasPrefix(s, t) {\n\t\th += 1\n\t}\n\tif strings.HasSuffix(s, t) {\n\t\th += 2\n\t}\n\tif strings.Contains(s, t) {\n\t\th += 4\n\t}\n\treturn h + u32(strings.Count(s, t))*8")
    both("strings_ToUpper_ToLower", wn, "u32", "s := string(vtBytes(w, n))\n\treturn vtHash(strings.ToUpper(s))*31 + vtHash(strings.ToLower(s))",
         zone=("w&0x80808080 != 0", "@non-ascii-input"))
    both("strings_TrimSpace_Fields", wn, "u32", "s := string(vtBytes(w, n))\n\treturn vtHash(strings.TrimSpace(s))*31 + u32(len(strings.Fields(s)))",
         zone=("w&0x80808080 != 0", "@non-ascii-input"))
    both("bytes_Equal_Index", [("w", "u32"), ("n", "u32"), ("c", "u8")], "i32", "b := vtBytes(w, n)\n\th := i32(bytes.IndexByte(b, c)) * 4\n\tif bytes.Equal(b, []byte{c}) {\n\t\th += 1\n\t}\n\treturn h + i32(bytes.Compare(b, []byte{c, c}))")
    return T


WA_IMPORTS = ["math/bits", "unicode/utf8", "unicode/utf16", "strconv", "hash/adler32", "hash/fnv", "encoding/hex", "encoding/binary",
              "encoding/base64", "sort", "strings", "bytes"]


def gen(tier, families=None):
    import os
    T = bits_templates() + text_templates(tier)
    only = os.environ.get("VERIF_ONLY")  # developer aid: restrict to templates whose name contains one of these
    if only:
        T = [t for t in T if any(o in t[0] for o in only.split(","))]
    used = [i for i in WA_IMPORTS if any((i.split("/")[-1] + ".") in t[3] for t in T)]
    return c01gen.gen_from(T, "c14", wa_imports=used, go_imports=used, wa_extra=WA_HELPERS, go_extra=GO_HELPERS, run_start=True)
