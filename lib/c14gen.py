"""Generator for C14: exported Wa wrappers around standard-library functions with scalar signatures,
and Go twins calling the Go standard library function each one is a port of."""
import c01gen

W = {"": ("uint", "32"), "8": ("u8", "8"), "16": ("u16", "16"), "32": ("u32", "32"), "64": ("u64", "64")}


DIV64_CLASSES = [0, 1, 8, 32, 62, 63]


def bits_templates():
    T = []
    def gofn(base, sfx):  # Wa's uint is 32 bits wide: the generic functions correspond to Go's 32-bit ones
        return "bits.%s%s" % (base, sfx if sfx else "32")
    for base in ["LeadingZeros", "TrailingZeros", "OnesCount", "Len"]:
        for sfx, (t, _) in W.items():
            T.append(("bits_%s%s" % (base, sfx), [("x", t)], "int", "return bits.%s%s(x)" % (base, sfx), "return int32(%s(x))" % gofn(base, sfx), []))
    for sfx, (t, _) in W.items():
        T.append(("bits_RotateLeft%s" % sfx, [("x", t), ("k", "int")], t, "return bits.RotateLeft%s(x, k)" % sfx, "return %s(x, int(k))" % gofn("RotateLeft", sfx), []))
        T.append(("bits_Reverse%s" % sfx, [("x", t)], t, "return bits.Reverse%s(x)" % sfx, "return %s(x)" % gofn("Reverse", sfx), []))
        if sfx != "8":
            T.append(("bits_ReverseBytes%s" % sfx, [("x", t)], t, "return bits.ReverseBytes%s(x)" % sfx, "return %s(x)" % gofn("ReverseBytes", sfx), []))
    for sfx in ["", "32", "64"]:
        t = W[sfx][0]
        for base, cin in (("Add", "carry"), ("Sub", "borrow")):
            for k, part in enumerate(["value", "carry"]):
                sel = "v, _" if k == 0 else "_, v"
                T.append(("bits_%s%s_%s" % (base, sfx, part), [("x", t), ("y", t), ("c", t)], t,
                          "%s := bits.%s%s(x, y, c)\n\treturn v" % (sel, base, sfx), "%s := %s(x, y, c)\n\treturn v" % (sel, gofn(base, sfx)), ["c <= 1"]))
        for k, part in enumerate(["hi", "lo"]):
            sel = "v, _" if k == 0 else "_, v"
            T.append(("bits_Mul%s_%s" % (sfx, part), [("x", t), ("y", t)], t,
                      "%s := bits.Mul%s(x, y)\n\treturn v" % (sel, sfx), "%s := %s(x, y)\n\treturn v" % (sel, gofn("Mul", sfx)), []))
        # the 128/64 division is symbolic-by-symbolic: the divisor's magnitude class (its number of leading zeros) is
        # enumerated for the 64-bit functions, everything else stays symbolic; the 32-bit ones are fully symbolic
        classes = [None] if sfx != "64" else DIV64_CLASSES
        for lz in classes:
            tag, pre = "", []
            if lz is not None:
                tag = "_lz%d" % lz
                top = 63 - lz
                # 8 free low bits in the divisor below its fixed top bit, 16 free bits in hi, the top and bottom byte of lo free
                if lz in (0, 1, 62, 63):
                    pre = ["r_y = 1<<%d | r_y&(1<<%d-1)&0xff" % (top, top), "y = r_y",
                           "r_hi &= 0xffff", "hi = r_hi", "r_lo = r_lo&0xff000000000000ff | 0x00123456789abc00", "lo = r_lo"]
                else:
                    # both halves of the divisor take part in the quotient-digit correction loops: these are beyond the
                    # solver with more than a dozen free bits (unknown at 120 s with 32), so the classes in the middle get 4 each
                    pre = ["r_y = 1<<%d | r_y&0xf | 0xfedcba90&(1<<%d-1)" % (top, top), "y = r_y",
                           "r_hi = r_hi&0xf | 0x7ffffff0&(1<<%d-1)" % top, "hi = r_hi", "r_lo = r_lo&0xf00000000000000f | 0x0123456789abcde0", "lo = r_lo"]
            for k, part in enumerate(["quo", "rem"]):
                sel = "v, _" if k == 0 else "_, v"
                T.append(("bits_Div%s_%s%s" % (sfx, part, tag), [("hi", t), ("lo", t), ("y", t)], t,
                          "%s := bits.Div%s(hi, lo, y)\n\treturn v" % (sel, sfx), "%s := %s(hi, lo, y)\n\treturn v" % (sel, gofn("Div", sfx)), [], None, pre))
            T.append(("bits_Rem%s%s" % (sfx, tag), [("hi", t), ("lo", t), ("y", t)], t, "return bits.Rem%s(hi, lo, y)" % sfx, "return %s(hi, lo, y)" % gofn("Rem", sfx), [], None, pre))
    return T


def gen(tier, families=None):
    import os
    T = bits_templates()
    only = os.environ.get("VERIF_ONLY")  # developer aid: restrict to templates whose name contains one of these
    if only:
        T = [t for t in T if any(o in t[0] for o in only.split(","))]
    return c01gen.gen_from(T, "c14", wa_imports=["math/bits"], go_imports=["math/bits"], run_start=True)
