#!/usr/bin/env python3
"""Regenerates /verif/MANIFEST.json from the tables below (single source of truth)."""
import json, os
V = os.path.dirname(os.path.dirname(os.path.abspath(__file__)))
ids = [json.loads(l)["id"] for l in open(os.path.join(V, "properties.jsonl"))]

E1 = "gosym"
CHECKS = {
 "C18": dict(engine=E1, category="model_checking", design="DESIGN.md#C18",
   technique="bounded symbolic execution of the real Go code (go/ssa -> SMT bit-vectors), z3 decides each assertion; counterexamples replayed natively",
   text="Symbolic execution of pcrel.SplitOffset/CombineOffset/MakeAbs/MakePCRel/GetTargetAddress/MakeLa64PCRel from the current tree with fully symbolic 32/64-bit operands; each clause of the property is an SMT query whose unsat answer covers the whole 2^32 / 2^64 x 2^64 input domain (the code is loop-free, so no unwinding bound applies). Right level: the property is pure integer arithmetic on machine words, exactly what a bit-vector solver decides completely.",
   note="Trusted: go/ssa lowering (x/tools v0.29.0), the gosym executor (validated per run by replaying solver models of every explored path natively and comparing observed values), z3 5.1.0. LoongArch CPU semantics of pcalau12i/addi.d are written in the harness from the manual. Range for LoongArch is the reachable part of +-2GiB (see DESIGN.md#C18)."),
 "C19": dict(engine=E1, category="model_checking", design="DESIGN.md#C19",
   technique="bounded symbolic execution of the real Go code (go/ssa -> SMT bit-vectors); z3 decides decoder-vs-grammar equivalence per path; counterexamples replayed natively",
   text="Encoders: every uint32/uint64/int32/int64/33-bit value is symbolic; the loop in encodeUint64/encodeInt64 unwinds at most 10 times and every unwinding is explored, so the claim covers all values. Decoders: every byte string of length 0..max+1 (6 bytes for 32/33-bit, 11 for 64-bit) with all bytes symbolic, for LoadUint32/LoadInt32/LoadInt64 and the io.ByteReader variants incl. DecodeInt33AsInt64; accept/reject, value and byte count are compared with a reference decoder written from the spec grammar. Right level: byte-level codecs with rare boundary inputs (5th/10th byte) are exactly where a solver beats sampling.",
   note="Trusted: the reference uN/sN decoder in the harness, go/ssa, the executor (validated per run by native replay of path models), z3 5.1.0. fmt.Errorf is an opaque non-nil error. Strings longer than max+1 bytes only add unread suffix bytes and are outside the bound."),
 "C15": dict(engine=E1, category="model_checking", design="DESIGN.md#C15",
   technique="bounded symbolic execution of the real Go code (go/ssa -> SMT bit-vectors) against an exact math/big oracle modelled as 128-bit bit-vectors; z3 decides each assertion; counterexamples replayed natively",
   text="constant.BinaryOp/UnaryOp/Shift/Compare/Int64Val/Uint64Val/MakeUint64/ToInt/Sign and types.representableConst are executed symbolically with fully symbolic int64/uint64 operands for every operator token and every integer BasicKind; the assertion is that the returned Value denotes the exact mathematical result (math/big oracle) and is reported as an exact int64 iff it fits, resp. that a constant is representable iff it lies in the type's range with Wa's 32-bit int/uint. Covers all 2^128 operand pairs per operator; only the run-time half of the property (folded value = value computed by the compiled program) is left to C01.",
   note="Trusted: math/big modelled as 128-bit two's complement (exact for one operation on <=64-bit operands; the product uses the signed-multiply overflow predicate), go/ssa, the executor (validated per run by native replay of path models with the real math/big), z3 5.1.0. Divisor != 0 assumed; float/rational/complex/string constants outside the claim."),
 "C17": dict(engine=E1, category="model_checking", design="DESIGN.md#C17",
   technique="bounded symbolic execution of the real Go encoders/decoders and of the x/arch disassemblers (go/ssa -> SMT bit-vectors), one task per mnemonic with fully symbolic registers and immediate; z3 decides each assertion; counterexamples replayed natively",
   text="For every mnemonic of the RISC-V table (RV32 and RV64 modes, base and pseudo-instructions) and of the LoongArch64 table, riscv.EncodeRV32/RV64 resp. loong64.EncodeLA64 run symbolically with all four register operands (full int16 range) and the int32 immediate symbolic; on every path where the encoder accepts, golang.org/x/arch's riscv64asm/loong64asm decoder (executed symbolically as ordinary Go) must return the same operation, registers and immediate, and Wa's own DecodeEx must return the original instruction. One solver query per assertion and path covers all 2^96 operand combinations of that mnemonic. AArch64 (encoder is panic(TODO), nothing is accepted) and x86-64 (p9x86, table-driven Plan 9 assembler beyond the executor's reach) are outside the claim.",
   note="Trusted: x/arch decoders as the independent reference (copied under third_party/xarch), the GNU-syntax normalisations listed in the harness (AM* operand order, alsl sa2+1, ldptr/stptr byte offsets), the hand-written pseudo-instruction base table, go/ssa, the executor (validated per run by native replay of path models), z3 5.1.0. fmt.Errorf/Sprintf are opaque stubs. Known findings (F/D extension of the RISC-V table, LoongArch relaxed signed immediates, fence reserved fields, addu16i.d) are listed per mnemonic and label in known_findings.txt."),
 "C24": dict(engine=E1, category="model_checking", design="DESIGN.md#C24",
   technique="bounded symbolic execution of the real Go parser/evaluator/printer (go/ssa -> SMT bit-vectors) on symbolic constraint text and a symbolic tag truth table; z3 decides equivalence with a reference Boolean evaluator per path; counterexamples replayed natively",
   text="buildtag.Parse (splitWaBuild, parseExpr, or/and/not/atom, lex), Expr.Eval and Expr.String run symbolically on '#wa:build ' followed by every string of up to 4 (quick) / 5 (thorough) bytes over the alphabet {space ( ) ! & | a b c}, with the tag assignment a symbolic 16-bit truth table: the parser accepts iff an independent precedence-climbing reference accepts, Eval equals the reference value for every assignment, and the printed form parses again to an equivalent expression. A second harness feeds up to 2 (quick) / 3 (thorough) completely arbitrary bytes (no panic; accept iff well-formed for ASCII), a third decides IsWaBuild's prefix rule. Right level: a small recursive-descent parser whose interesting inputs (precedence, parentheses, '!!', dangling operators) all occur within a few bytes.",
   note="Trusted: the reference evaluator in the harness, go/ssa, the executor (validated per run by native replay of path models), z3 5.1.0. The tag truth table is indexed by a hash of the tag text (tags with equal hash share a value on both sides). Longer lines, the loader's file selection (isSkipedAstFile, directory walk) and non-ASCII tag letters beyond 3 bytes are outside the bound."),
 "C25": dict(engine=E1, category="model_checking", design="DESIGN.md#C25",
   technique="bounded symbolic execution of the real Go writer/reader (go/ssa -> SMT bit-vectors, real bytes.Buffer code) over symbolic payload bytes and a symbolic stall position of the transport; z3 decides every path's delivery assertion; counterexamples replayed natively",
   text="slip.Writer.WritePacket and slip.Reader.ReadPacket run symbolically on 1 or 2 packets of 1..3 fully symbolic bytes each (all 24 length/stall cases): the packets read back are the packets written, in order, both with a transport that never stalls and with one that returns (0, nil) once at any read index (prefix fragments concatenated as SlipMuxReader does). SlipMuxWriter/SlipMuxReader: symbolic frame byte in each class (diagnostic, IPv4, IPv6, other valid) with 0..2 symbolic payload bytes, and a 4-byte CoAP message with one symbolic byte through the real FCS-16 append/check; frame type and payload are delivered. FCS-16: one table step equals the bitwise CRC-16/X-25 step for all 2^24 (fcs, byte) pairs.",
   note="Trusted: go/ssa, the executor (validated per run by native replay of path models), z3 5.1.0; sync.Mutex is a no-op. The reader requests one byte per Read, so chunking of the stream is unobservable apart from zero-length reads, which are modelled explicitly. Longer packets, more than two packets, more than one stall, and CRC reasoning over fully symbolic CoAP messages are outside the bound."),
 "C20": dict(engine=E1, category="model_checking", design="DESIGN.md#C20",
   technique="bounded symbolic execution of one emulator step (real decoder, real bus, real execInst; go/ssa -> SMT bit-vectors) from a fully symbolic machine state, compared by z3 with reference ISA semantics written in the harness; counterexamples replayed natively",
   text="(*riscv64.CPU).StepRun and (*riscv32.CPU).StepRun, with the real riscv.DecodeEx and device.Bus, run symbolically for one step from an arbitrary machine state: all 32 integer registers, PC, two FP register bit patterns, the loaded memory word and the instruction word (constrained to one mnemonic's spec pattern, register and immediate bits free) are symbolic. For each of the 63 RV32I/RV64I/M mnemonics, on every path where the emulator reports success, the integer registers as subsequently read, the PC, the load address/size, the memory write (address, size, value) and the FP registers equal the reference semantics written from the RISC-V unprivileged specification. One query per assertion and path covers all 2^(32*64+...) states.",
   note="Trusted: the reference semantics and instruction patterns in the harness (from the spec listing, independent of Wa's table), go/ssa, the executor (validated per run by native replay of path models), z3 5.1.0. riscv.AsmSyntax/AsString (error formatting) are opaque stubs. MULH/MULHSU/MULHU (reported unsupported by the emulator), CSR/privileged/atomic/FP instructions, devices other than RAM and multi-step behaviour are outside. The LoongArch64 emulator (wemu/loong64) gets the same treatment for the 27 instructions it implements (add.w/d, sub.w/d, and, or, slt, slli/srli/srai.w, addi.w, ori, lu12i.w, pcaddu12i, ld.bu/d, st.b/w/d, beq, bne, blt, b, bl, fadd.s, fmul.d, fsub.d; opcode patterns from the encoder table that C17 validates against x/arch, semantics from the LoongArch reference manual), plus 8 unimplemented ones that must stay unsupported."),
 "C23": dict(engine=E1, category="model_checking", design="DESIGN.md#C23",
   technique="bounded symbolic execution of the real Go position code (go/ssa -> SMT bit-vectors) on symbolic file contents, offsets and Pos values; z3 decides each assertion against a newline-counting oracle; counterexamples replayed natively",
   text="token.FileSet.AddFile, File.SetLinesForContent / AddLine, File.Pos/Offset/Line/LineStart, FileSet.Position/PositionFor/File (searchFiles, searchInts, unpack) run symbolically for two files of 0..4 and 0..2 fully symbolic bytes and a symbolic offset in either file: file name, offset, line and column equal the values obtained by counting newlines and bytes. FileSet.Write into an in-memory serializedFileSet and FileSet.Read into a fresh FileSet: every Pos value in [0, Base+1] (symbolic) maps to the same Position, adjusted and unadjusted, and Base is preserved.",
   note="Trusted: the counting oracle in the harness, go/ssa, the executor (validated per run by native replay of path models), z3 5.1.0; mutexes are no-ops. Outside the claim: the JSON text itself (encoding/json is reflection-based and not modelled), //line directives (AddLineInfo), files longer than 4 bytes, and positions in run-time panic messages of compiled programs (whole-compiler path). Two go/token conventions are listed as known findings (empty file, end position after a final newline)."),
 "C22": dict(engine=E1, category="model_checking", design="DESIGN.md#C22",
   technique="bounded symbolic execution of the real Go diff code (go/ssa -> SMT bit-vectors; LCS, rune conversion, Apply/validate, sort) on two symbolic texts; z3 decides each assertion; counterexamples replayed natively",
   text="diff.Strings and diff.Bytes (diffASCII, diffRunes, lcs.DiffBytes/DiffRunes with the two-sided LCS search, rune/byte offset conversion) run symbolically on two texts of 0..3 (quick) / 0..4 (thorough) fully symbolic bytes each, assumed valid UTF-8 (ASCII, multi-byte, mixed): the computed edit list is sorted, in bounds, non-overlapping, falls on rune boundaries of the first text, is accepted by diff.Apply, and applying it yields exactly the second text. diff.Apply/validate additionally on two arbitrary edits with symbolic bounds: accepted iff in bounds and disjoint after sorting, and the result is the reference splice.",
   note="Trusted: go/ssa, the executor (validated per run by native replay of path models), z3 5.1.0; sort.Slice is modelled as a stable in-place insertion sort driven by the caller's less closure. Texts longer than 4 bytes, invalid UTF-8 inputs and unified-diff rendering (ToUnified, lineEdits) are outside the bound."),
 "C21": dict(engine=E1, category="model_checking", design="DESIGN.md#C21",
   technique="bounded symbolic execution of the real Go server code (LSPServer.changedText/applyIncrementalChanges, protocol.Mapper; go/ssa -> SMT bit-vectors) on a symbolic document, range and replacement; z3 decides each assertion against a UTF-16 client model; counterexamples replayed natively",
   text="(*LSPServer).changedText with applyIncrementalChanges and protocol.Mapper.RangeOffsets/PositionOffset/initLines (real utf8 decoding) run symbolically on a document of 0..3 (quick) / 0..4 (thorough) fully symbolic bytes (valid UTF-8 incl. 2-, 3- and 4-byte characters, several lines), one incremental change whose start and end (line, character) are symbolic in 0..6 and whose replacement text is 0..2 symbolic bytes: a range that exists in the client's UTF-16 model is accepted and the resulting text equals the client's; a range outside the document (line or character beyond the end, start after end) is rejected; the stored text is untouched. Because the pre-state document is arbitrary, one step covers every position in a sequence of notifications (each step starts from some document). Full-document changes replace the text.",
   note="Trusted: the client model in the harness, go/ssa, the executor (validated per run by native replay of path models), z3 5.1.0. DocumentURI.Path (net/url) is an opaque stub; carriage returns and positions inside a surrogate pair are excluded by assumption; DidChange's logging/JSON and SyncFile are not on the path; documents longer than 4 bytes are outside the bound."),
 "C08": dict(engine=E1, category="model_checking", design="DESIGN.md#C08",
   technique="bounded symbolic execution of the real Go scanners and of format.File's dispatch (go/ssa -> SMT bit-vectors, real unicode tables) on symbolic source bytes; every path must end without a panic and reach EOF within a call bound; z3 decides path feasibility; counterexamples replayed natively",
   text="Partial claim. The three scanners (internal/scanner for Wa/Wz, internal/wat/scanner, internal/native/scanner) are driven exactly as their callers drive them (Init, then Scan until EOF) on fully symbolic input: every input of 0..1 arbitrary bytes and every 2-byte input with an ASCII first byte (quick), every other 2-byte input and every 3-byte ASCII input (thorough), with and without an error handler and comment mode. On every path: no panic (index out of range, nil dereference, explicit panic) and EOF is reached within 2n+4 Scan calls, i.e. each call makes progress - the bounded-time half of the property as a per-call lemma. format.File: for 9 file names (known, unknown, upper-case, empty extensions) and 0..2 arbitrary content bytes, language detection (xlang.DetectLang with the real scanner) and dispatch never panic.",
   note="Trusted: go/ssa, the executor (validated per run by native replay of path models), z3 5.1.0. The formatters behind format.File (parser + printer, tabwriter) are stubs returning zero values: only the dispatch is claimed. Parsers, the type checker, the loader and inputs longer than 3 bytes are outside the claim (pointer-rich recursive code the executor cannot explore at useful sizes) - stated, not replaced by testing."),
 # ---CHECKS-END---
}
NA = {
 "C02": "solver-based checking needs an SMT semantics of the x86-64 subset wat2x64 emits and of the Plan 9 assembler back end (p9x86, 5.5 kLOC); none is available in the sandbox and writing one is out of reach (DESIGN.md#C02)",
 "C07": "pretty printer over a pointer-rich AST quantified over every source text; no bounded value-level kernel carries the property and the printer (tabwriter, reflection on node types) cannot be encoded (DESIGN.md#C07)",
 "C09": "relates two recursive-descent parsers and universes over every program; structural (AST equality), not a bounded computation over values (DESIGN.md#C09)",
 "C16": "quantifies over all programs the type checker accepts; no validator to execute and no value-level kernel (DESIGN.md#C16)",
 "C26": "the whole path is encoding/json (reflection), regexp, bufio and fmt, which the executor does not model and which are the substance of the property (DESIGN.md#C26)",
 "C27": "quantifies over Go map-iteration schedules inside the whole compiler; not encodable (DESIGN.md#C27)",
 "C28": "goroutine interleavings over the whole compiler; the executor is single-threaded (DESIGN.md#C28)",
 "C31": "wazero's JIT-generated amd64 code carries the semantics; no x86-64 model exists in the sandbox (DESIGN.md#C31)",
 # ---NA-END---
}
DEFAULT_NA = "check not built yet (build in progress; see DESIGN.md section 4/5)"

m = {
 "version": 1,
 "setup_cmd": "cd /verif/engine && GOFLAGS=-mod=mod GOPROXY=off GOSUMDB=off GOTOOLCHAIN=local go build -o /verif/bin/gosym ./cmd/gosym",
 "hooks": {
  "guard": "verif",
  "enable": "harness files under /verif/harness/go/<pkg dir>/ carry //go:build verif and are injected at check time with `-tags verif -overlay <generated json>` (go/packages Overlay for the symbolic executor, go test -c -overlay for native replay); nothing is committed to /repo",
  "baseline_off_cmd": "cd /repo && go test -mod=mod -vet=off -count=1 -timeout 25m ./...",
  "source_commits": [],
  "add_only": True
 },
 "engines": [
  {"name": "gosym", "path": "engine/gosym", "serves_properties": sorted(k for k, v in CHECKS.items() if v["engine"] == E1),
   "kind_free_text": "own symbolic executor for Go in go/ssa form (Go, x/tools v0.29.0) emitting SMT-LIB2 to z3 -in; stateless DFS over decision prefixes; native replay of models"},
 ],
 "checks": [],
 "not_applicable": [],
 "notes": "All checks: exit 0 = held within stated bounds (KNOWN-FINDING lines possible), 1 = VIOLATION reproduced natively, 3 = inconclusive (engine/harness problem, solver unknown, bound not covered) - never reported as held."
}
for pid in ids:
    if pid in CHECKS:
        c = CHECKS[pid]
        m["checks"].append({
            "property_id": pid,
            "quick_cmd": "./check %s --tier quick" % pid,
            "thorough_cmd": "./check %s --tier thorough" % pid,
            "evidence_file": "/verif/evidence/%s.json" % pid,
            "replay_cmd_template": "./check %s --replay {path}" % pid,
            "engine": c["engine"],
            "level_claimed": {"category": c["category"], "text": c["text"], "design_ref": c["design"]},
            "level_note": c["note"],
            "technique": c["technique"],
        })
    else:
        m["not_applicable"].append({"property_id": pid, "reason": NA.get(pid, DEFAULT_NA)})
json.dump(m, open(os.path.join(V, "MANIFEST.json"), "w"), indent=1)
print("checks:", len(m["checks"]), "n/a:", len(m["not_applicable"]))
