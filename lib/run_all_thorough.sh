#!/bin/sh
# developer aid: run every registered check's thorough tier once, sequentially, and report exit code and wall time
cd "$(dirname "$0")/.."
[ -x bin/gosym ] || (cd engine && GOFLAGS=-mod=mod GOPROXY=off GOSUMDB=off GOTOOLCHAIN=local go build -o ../bin/gosym ./cmd/gosym)
for c in ${@:-C18 C19 C15 C29 C12 C11 C22 C23 C30 C17 C20 C25 C21 C04 C10 C01 C13 C05 C06 C14 C08 C24}; do
  t0=$(date +%s)
  timeout 3600 ./check $c --tier thorough > /tmp/thorough_$c.log 2>&1
  rc=$?
  echo "$c rc=$rc wall=$(( $(date +%s) - t0 ))s $(grep -c '^VIOLATION' /tmp/thorough_$c.log) violations; $(grep '^INCONCLUSIVE' /tmp/thorough_$c.log | head -2 | cut -c1-160)"
done
