"""Orchestration shared by all checks: overlay generation, running the symbolic
executors, native replay, known-findings filter, evidence writing."""
import json, os, re, shutil, subprocess, sys, tempfile, time, hashlib, glob

VERIF = os.path.dirname(os.path.dirname(os.path.abspath(__file__)))
REPO = os.environ.get("VERIF_REPO", "/repo")
MODULE = "wa-lang.org/wa"
GOENV = dict(os.environ, GOFLAGS="-mod=mod", GOPROXY="off", GOSUMDB="off", GOTOOLCHAIN="local",
             CGO_ENABLED="0")
BIN = os.path.join(VERIF, "bin")


class Inconclusive(Exception):
    pass


def scratch_dir(tag):
    base = os.environ.get("TMPDIR", "/tmp")
    return tempfile.mkdtemp(prefix="verif-%s-" % tag, dir=base)


def ensure_built():
    """Build the engine binaries if missing or older than their sources."""
    eng = os.path.join(VERIF, "engine")
    out = os.path.join(BIN, "gosym")
    newest = 0
    for root, _, files in os.walk(eng):
        for f in files:
            if f.endswith(".go") or f in ("go.mod", "go.sum"):
                newest = max(newest, os.path.getmtime(os.path.join(root, f)))
    if not os.path.exists(out) or os.path.getmtime(out) < newest:
        os.makedirs(BIN, exist_ok=True)
        r = subprocess.run(["go", "build", "-o", out, "./cmd/gosym"], cwd=eng, env=GOENV,
                           capture_output=True, text=True)
        if r.returncode != 0:
            raise Inconclusive("engine build failed: " + r.stderr[-2000:])


def make_overlay(scratch, pkgs, extra=None):
    """pkgs: list of dicts {dir: repo-relative package dir, name: package name}.
    Every *.go under /verif/harness/go/<dir>/ is mapped into /repo/<dir>/, plus
    the generated runtime and replay test. extra: {virtual: real}."""
    rep = {}
    pkgs = list(pkgs)
    # the wasm build tool needs the accessor added to the allocator package
    if any(p["dir"] == "internal/zzverif/wbuild" for p in pkgs) and not any(p["dir"] == "internal/waroot/malloc" for p in pkgs):
        pkgs.append({"dir": "internal/waroot/malloc", "name": "malloc", "rt": False})
    for p in pkgs:
        d, name = p["dir"], p["name"]
        hdir = os.path.join(VERIF, "harness", "go", d)
        for f in sorted(glob.glob(os.path.join(hdir, "*.go"))):
            rep[os.path.join(REPO, d, os.path.basename(f))] = f
        if p.get("rt", True):
            for tmpl, outname in (("zz_verif_rt.go.tmpl", "zz_verif_rt.go"),
                                  ("zz_verif_replay_test.go.tmpl", "zz_verif_replay_test.go")):
                src = open(os.path.join(VERIF, "harness", "go", "_common", tmpl)).read().replace("PKGNAME", name)
                gen = os.path.join(scratch, d.replace("/", "_") + "_" + outname)
                open(gen, "w").write(src)
                rep[os.path.join(REPO, d, outname)] = gen
    if extra:
        rep.update(extra)
    ov = os.path.join(scratch, "overlay.json")
    json.dump({"Replace": rep}, open(ov, "w"), indent=1)
    return ov


def third_party_overlay(subdir, virt_dir):
    """Map every file of /verif/third_party/<subdir> into /repo/<virt_dir>."""
    out = {}
    src = os.path.join(VERIF, "third_party", subdir)
    for f in sorted(os.listdir(src)):
        if f.endswith(".go") and not f.endswith("_test.go"):
            out[os.path.join(REPO, virt_dir, f)] = os.path.join(src, f)
    return out


def run_gosym(scratch, overlay, pkgdir, harnesses=None, jobs=None, opts=None, tag="res"):
    ensure_built()
    out = os.path.join(scratch, tag + ".json")
    cmd = [os.path.join(BIN, "gosym"), "-repo", REPO, "-overlay", overlay, "-pkg", MODULE + "/" + pkgdir,
           "-out", out, "-jobs", str(jobs or os.cpu_count() or 4)]
    if harnesses:
        cmd += ["-harness", ",".join(harnesses)]
    for k, v in (opts or {}).items():
        cmd += ["-" + k, str(v)]
    r = subprocess.run(cmd, env=GOENV, capture_output=True, text=True)
    if not os.path.exists(out):
        raise Inconclusive("gosym produced no output: rc=%d %s" % (r.returncode, (r.stderr or "")[-3000:]))
    res = json.load(open(out))
    if res.get("error"):
        raise Inconclusive(res["error"][:3000])
    return res


WBUILD_TIMEOUT = 600


def build_wasm(scratch, overlay, cmds):
    """Run the wbuild tool (overlaid into /repo) on a batch of commands; each command is a list of words."""
    lst = os.path.join(scratch, "wbuild_%d.txt" % (time.time_ns() % 10**9))
    with open(lst, "w") as fh:
        for c in cmds:
            fh.write(" ".join(c) + "\n")
    r = subprocess.run(["go", "run", "-tags", "verif", "-overlay", overlay, "./internal/zzverif/wbuild", "batch", lst],
                       cwd=REPO, env=GOENV, capture_output=True, text=True, timeout=WBUILD_TIMEOUT)
    if r.returncode != 0:
        raise Inconclusive("WASM-BUILD-FAILED (wbuild with the current tree): " + (r.stderr or r.stdout)[-3000:])


def build_wasm_keepgoing(scratch, overlay, cmds):
    """Like build_wasm but returns {index: error text} for the commands that failed instead of raising."""
    lst = os.path.join(scratch, "wbuildk_%d.txt" % (time.time_ns() % 10**9))
    with open(lst, "w") as fh:
        for c in cmds:
            fh.write(" ".join(c) + "\n")
    r = subprocess.run(["go", "run", "-tags", "verif", "-overlay", overlay, "./internal/zzverif/wbuild", "batch-keepgoing", lst],
                       cwd=REPO, env=GOENV, capture_output=True, text=True, timeout=WBUILD_TIMEOUT)
    if r.returncode != 0:
        raise Inconclusive("WASM-BUILD-FAILED (wbuild with the current tree): " + (r.stderr or r.stdout)[-3000:])
    failed = {}
    for line in r.stdout.splitlines():
        m = re.match(r"FAILED (\d+) (.*)", line)
        if m:
            failed[int(m.group(1))] = m.group(2)
    return failed


def build_replay_bin(scratch, overlay, pkgdir, tag="replay"):
    out = os.path.join(scratch, tag + "_" + pkgdir.replace("/", "_") + ".test")
    r = subprocess.run(["go", "test", "-c", "-vet=off", "-tags", "verif", "-overlay", overlay, "-o", out,
                        "./" + pkgdir], cwd=REPO, env=GOENV, capture_output=True, text=True)
    if r.returncode != 0 or not os.path.exists(out):
        raise Inconclusive("HARNESS-BUILD-FAILED (native replay binary): " + (r.stderr or r.stdout)[-3000:])
    return out


REPLAY_ENV = {}
HANG_REPLAY_S = 20
PREPARE_ONLY = None


class Prepared(Exception):
    pass


def native_replay(scratch, binpath, records, timeout=600):
    """records: list of {harness, case, inputs{name:hex}}; returns list of line lists."""
    if not records:
        return []
    f = os.path.join(scratch, "replay_%d.txt" % (time.time_ns() % 10**9))
    with open(f, "w") as fh:
        for r in records:
            fh.write("case %s %d\n" % (r["harness"], r.get("case", 0)))
            for k, v in r["inputs"].items():
                fh.write("in %s %s\n" % (k, v))
            fh.write("run\n")
    env = dict(GOENV, VF_REPLAY=f, **REPLAY_ENV)
    p = subprocess.run([binpath, "-test.run", "^TestVfReplay$", "-test.timeout", "%ds" % timeout], env=env,
                       capture_output=True, text=True, timeout=timeout + 30, cwd=os.path.dirname(binpath))
    outs, cur = [], None
    for line in p.stdout.splitlines():
        if line.startswith("VF-BEGIN"):
            cur = []
        elif line.startswith("VF-END"):
            outs.append(cur)
            cur = None
        elif cur is not None:
            cur.append(line)
    if len(outs) != len(records):
        raise Inconclusive("native replay produced %d of %d records: %s" % (len(outs), len(records),
                                                                         (p.stdout + p.stderr)[-2000:]))
    return outs


# ---------- known findings ----------

def load_known(prop):
    known, fixed = {}, {}
    path = os.path.join(VERIF, "known_findings.txt")
    if not os.path.exists(path):
        return known, fixed
    for line in open(path):
        line = line.strip()
        m = re.match(r"finding:\s+property=(\S+)\s+key=(\S+)\s*::\s*(.*)", line)
        if m and m.group(1) == prop:
            known[m.group(2)] = m.group(3)
        m = re.match(r"fixed:\s+property=(\S+)\s+(\S+)\s+key=(\S+)\s*::\s*(.*)", line)
        if m and m.group(1) == prop:
            fixed[m.group(3)] = m.group(4)
    return known, fixed


def file_hash(path):
    try:
        return hashlib.sha256(open(path, "rb").read()).hexdigest()[:16]
    except OSError:
        return None


def write_evidence(prop, ev):
    os.makedirs(os.path.join(VERIF, "evidence"), exist_ok=True)
    path = os.path.join(VERIF, "evidence", prop + ".json")
    json.dump(ev, open(path, "w"), indent=1, sort_keys=False)
    return path


def static_labels(files):
    labs = set()
    for f in files:
        src = open(f).read()
        for m in re.finditer(r'vfAssert\((?:[^"\n]|"(?:[^"\\]|\\.)*")*?,\s*"([^"]+)"\s*\)', src):
            labs.add(m.group(1))
    return labs


class GoCheck:
    """Generic driver for E1 checks: run harnesses symbolically, validate the
    translation on path models, replay counterexamples natively, judge."""

    def __init__(self, prop, level, tier, seed):
        self.prop, self.level, self.tier, self.seed = prop, level, tier, seed
        self.t0 = time.time()
        self.scratch = scratch_dir(prop)
        self.known, self.fixed = load_known(prop)
        for old in glob.glob(os.path.join(VERIF, "replays", prop, "*.json")) if PREPARE_ONLY is None else []:
            os.remove(old)  # replays always belong to the latest run
        self.tasks = []          # task results
        self.violations = []     # (key, replay path)
        self.known_hits = []     # (key, text)
        self.notes = []
        self.engine_problems = []
        self.samples_agreed = 0
        self.cex_replayed = 0
        self.harness_files = []
        self.units = []
        self.assumptions = []
        self.bounds = {}
        self.extra_cov = {}

    def cleanup(self):
        shutil.rmtree(self.scratch, ignore_errors=True)

    def case_name(self, t):
        for k in (t.get("notes") or {}):
            if k.startswith("case:"):
                return k[5:]
        return str(t["case"])

    def run_unit(self, pkgdir, pkgname, harnesses=None, extra_overlay=None, opts=None, extra_pkgs=None,
                 expect_unreached=(), third_party=None):
        if PREPARE_ONLY is not None:
            # replay mode: the check's run() is used only to rebuild what the harness needs (modules, generated files)
            if PREPARE_ONLY == pkgdir:
                raise Prepared({"pkgdir": pkgdir, "pkgname": pkgname, "extra_overlay": extra_overlay or {}, "extra_pkgs": extra_pkgs or [],
                                "third_party": locals().get("third_party"), "scratch": self.scratch})
            return
        """One package worth of harnesses."""
        pk = [{"dir": pkgdir, "name": pkgname}] + (extra_pkgs or [])
        extra_overlay = dict(extra_overlay or {})
        for sub, virt in (third_party or []):
            extra_overlay.update(third_party_overlay(sub, virt))
        ov = make_overlay(self.scratch, pk, extra_overlay)
        hfiles = sorted(glob.glob(os.path.join(VERIF, "harness", "go", pkgdir, "*.go")))
        self.harness_files += hfiles
        res = run_gosym(self.scratch, ov, pkgdir, harnesses, opts=opts, tag="res_" + pkgname)
        tasks = res["results"]
        self.bounds.update(res.get("limits", {}))
        for t in tasks:
            t["_pkgdir"] = pkgdir
        self._pkgname = getattr(self, "_pkgname", {})
        self._pkgname[pkgdir] = pkgname
        self._third = getattr(self, "_third", {})
        self._third[pkgdir] = third_party or []
        self.tasks += tasks
        # engine-level failures
        for t in tasks:
            if t.get("error"):
                self.engine_problems.append("%s: %s" % (t["harness"], t["error"]))
            for inc in t.get("incomplete") or []:
                self.engine_problems.append("%s[%s]: incomplete: %s" % (t["harness"], self.case_name(t), inc))
            if t.get("q_unknown"):
                pass  # unknowns surface as incomplete paths
        # vacuity: every statically present assertion label reached somewhere
        lfiles = hfiles
        if harnesses:
            # only the files that define a selected harness contribute expected labels
            lfiles = [f for f in hfiles if any(re.search(r"func %s\(" % h, open(f).read()) for h in harnesses)]
        wanted = static_labels(lfiles)
        reached = set()
        for t in tasks:
            for k, v in (t.get("reached") or {}).items():
                if v > 0:
                    reached.add(k)
        self.reached = getattr(self, "reached", set()) | reached
        self.wanted = getattr(self, "wanted", set()) | (wanted - set(expect_unreached))
        # native side
        need_native = any(t.get("cex") or t.get("samples") for t in tasks)
        if need_native:
            binp = build_replay_bin(self.scratch, ov, pkgdir)
            self._validate(tasks, binp)
            self._replay_cex(tasks, binp, pkgdir)
        for t in tasks:
            for d in t.get("diags") or []:
                self.notes.append("NOTE: %s[%s] diagnostic %s witness %s" % (t["harness"], self.case_name(t),
                                                                          d["label"], json.dumps(d["inputs"], sort_keys=True)))
        return tasks

    def _validate(self, tasks, binp):
        recs, meta = [], []
        for t in tasks:
            for s in t.get("samples") or []:
                recs.append({"harness": t["harness"], "case": t["case"], "inputs": s["inputs"]})
                meta.append((t, s))
        outs = native_replay(self.scratch, binp, recs)
        for (t, s), lines in zip(meta, outs):
            obs = {}
            panicked = False
            assume_fail = False
            for l in lines:
                if l.startswith("VF-OBS "):
                    k, v = l[7:].split("=", 1)
                    obs[k] = v
                elif l.startswith("VF-PANIC"):
                    panicked = True
                elif l.startswith("VF-ASSUME-FAIL"):
                    assume_fail = True
            want_panic = s["outcome"] == "panic"
            ok = (not assume_fail) and panicked == want_panic
            if ok:
                for k, v in s["observe"].items():
                    if k not in obs or int(obs[k], 16) != int(v, 16):
                        ok = False
            if ok:
                self.samples_agreed += 1
            else:
                self.engine_problems.append("ENGINE-MISMATCH %s[%s] path %d inputs %s: predicted %s/%s native %s" % (
                    t["harness"], self.case_name(t), s["path"], json.dumps(s["inputs"], sort_keys=True),
                    s["outcome"], json.dumps(s["observe"], sort_keys=True), lines))

    def _replay_cex(self, tasks, binp, pkgdir):
        recs, meta = [], []
        for t in tasks:
            for c in t.get("cex") or []:
                recs.append({"harness": t["harness"], "case": t["case"], "inputs": c["inputs"]})
                meta.append((t, c))
        # termination counterexamples are replayed one by one under a wall-clock limit: reproduced = still running at the limit
        hang = [i for i, (t, c) in enumerate(meta) if c["label"] == "terminates-within-step-budget"]
        hang_out = {}
        for i in hang:
            try:
                o = native_replay(self.scratch, binp, [recs[i]], timeout=HANG_REPLAY_S)
                hang_out[i] = o[0]
            except (subprocess.TimeoutExpired, Inconclusive):
                hang_out[i] = ["VF-HANG native run still going after %d s" % HANG_REPLAY_S]
        rest = [i for i in range(len(recs)) if i not in hang_out]
        rest_out = native_replay(self.scratch, binp, [recs[i] for i in rest])
        outs = [None] * len(recs)
        for i, o in zip(rest, rest_out):
            outs[i] = o
        for i, o in hang_out.items():
            outs[i] = o
        for (t, c), lines in zip(meta, outs):
            self.cex_replayed += 1
            label = c["label"]
            if label == "terminates-within-step-budget":
                repro = any(l.startswith("VF-HANG") for l in lines)
            elif label == "uncaught-panic":
                repro = any(l.startswith("VF-PANIC") for l in lines)
            else:
                repro = ("VF-ASSERT-FAIL " + label) in lines
            key = "%s/%s/%s" % (t["harness"], self.case_name(t), label)
            if not repro:
                self.engine_problems.append("ENGINE-MISMATCH counterexample for %s did not reproduce natively: inputs %s native %s" % (
                    key, json.dumps(c["inputs"], sort_keys=True), lines))
                continue
            if key in self.known:
                if key not in [k for k, _ in self.known_hits]:
                    self.known_hits.append((key, self.known[key]))
                continue
            if any(k == key for k, _ in self.violations):
                continue
            rdir = os.path.join(VERIF, "replays", self.prop)
            os.makedirs(rdir, exist_ok=True)
            rp = os.path.join(rdir, re.sub(r"[^A-Za-z0-9_.-]", "_", key) + ".json")
            json.dump({"property": self.prop, "engine": "gosym", "pkgdir": pkgdir, "pkgname": self._pkgname.get(pkgdir),
                       "third_party": self._third.get(pkgdir, []), "harness": t["harness"],
                       "case": t["case"], "case_name": self.case_name(t), "label": label, "inputs": c["inputs"], "tier": self.tier,
                       "info": c.get("info", ""), "observed_native": lines,
                       "cmd": "cd /verif && ./check %s --replay %s" % (self.prop, rp)}, open(rp, "w"), indent=1)
            self.violations.append((key, rp))

    def finish(self, level_cov_extra=None, samples_out=None):
        if PREPARE_ONLY is not None:
            self.cleanup()
            return 3
        wall = time.time() - self.t0
        unreached = sorted(getattr(self, "wanted", set()) - getattr(self, "reached", set()))
        if unreached:
            self.engine_problems.append("VACUOUS: assertion labels never reached: " + ", ".join(unreached))
        paths = sum(t.get("paths_done", 0) for t in self.tasks)
        # transitions: branch decisions the solver or the simplifier resolved on symbolic data, plus forks at enumerated choices
        decisions = sum(t.get("decisions", 0) + t.get("forks", 0) for t in self.tasks)
        queries = sum(t.get("queries", 0) for t in self.tasks)
        funcs = {}
        for t in self.tasks:
            for k, v in (t.get("funcs") or {}).items():
                funcs[k] = funcs.get(k, 0) + v
        stubs = {}
        for t in self.tasks:
            for k, v in (t.get("stubs") or {}).items():
                stubs[k] = stubs.get(k, 0) + v
        repo_funcs = sorted(k for k in funcs if MODULE in k)
        samples = samples_out or []
        if not samples:
            for t in self.tasks[:200]:
                for s in (t.get("samples") or [])[:1]:
                    samples.append({"harness": t["harness"], "case": self.case_name(t), "path_model": s["inputs"],
                                    "predicted_observations": s["observe"], "outcome": s["outcome"]})
                if len(samples) >= 5:
                    break
        cov = {
            "states": max(paths, 0), "transitions": max(decisions, 0),
            "traces_validated_against_impl": self.samples_agreed,
            "samples": samples or [{"note": "no path produced a sample"}],
            "tasks": len(self.tasks),
            "assertion_sites_reached": sorted(getattr(self, "reached", set())),
            "assert_queries": sum(t.get("assert_checks", 0) for t in self.tasks),
            "solver_queries": queries,
            "solver_sat": sum(t.get("q_sat", 0) for t in self.tasks),
            "solver_unsat": sum(t.get("q_unsat", 0) for t in self.tasks),
            "solver_unknown": sum(t.get("q_unknown", 0) for t in self.tasks),
            "solver_time_s": round(sum(t.get("solver_ms", 0) for t in self.tasks) / 1000.0, 3),
            "symbolic_steps": sum(t.get("steps", 0) for t in self.tasks),
            "functions_encoded": repo_funcs[:400],
            "functions_encoded_count": len(funcs),
            "stubs_hit": stubs,
            "bounds": self.bounds,
            "counterexamples_replayed": self.cex_replayed,
            "known_findings_hit": [k for k, _ in self.known_hits],
            "harness_files": {os.path.relpath(f, VERIF): file_hash(f) for f in sorted(set(self.harness_files))},
            "notes": self.notes[:60],
            "engine_problems": self.engine_problems[:40],
            "exhaustive": False,
        }
        if self.level == "translation_validation":
            cov["programs"] = max(len(self.tasks), 0)
            cov["disagreements_checked"] = self.cex_replayed
        cov.update(self.extra_cov)
        if level_cov_extra:
            cov.update(level_cov_extra)
        ev = {"property_id": self.prop, "tier": self.tier, "seed": self.seed, "level": self.level,
              "coverage": cov, "assumptions": self.assumptions, "wall_s": round(wall, 2),
              "violations": len(self.violations)}
        write_evidence(self.prop, ev)
        for n in self.notes[:40]:
            print(n)
        for k, txt in self.known_hits:
            print("KNOWN-FINDING: property=%s %s :: %s" % (self.prop, k, txt[:200]))
        hit = set(k for k, _ in self.known_hits)
        for k, txt in sorted(self.known.items()):
            if k not in hit:
                print("KNOWN-FINDING: property=%s %s :: [listed; its case is not part of the %s tier or did not fail in this run] %s" % (self.prop, k, self.tier, txt[:160]))
        for k, rp in self.violations:
            print("VIOLATION property=%s replay=%s   (%s)" % (self.prop, rp, k))
        print("%s tier=%s tasks=%d paths=%d queries=%d (unsat %d, sat %d, unknown %d) solver=%.1fs validated=%d cex_replayed=%d wall=%.1fs" % (
            self.prop, self.tier, len(self.tasks), paths, queries, cov["solver_unsat"], cov["solver_sat"],
            cov["solver_unknown"], cov["solver_time_s"], self.samples_agreed, self.cex_replayed, wall))
        self.cleanup()
        if self.violations:
            return 1
        if self.engine_problems:
            for e in self.engine_problems[:30]:
                print("INCONCLUSIVE: " + e[:1500])
            return 3
        return 0


def replay_file(prop, path, prepare=None):
    """Re-run the native side of a recorded violation.  prepare(scratch) -> (extra overlay entries, extra
    packages) lets a check rebuild what its harness needs (wasm modules, generated files) from the current tree."""
    rec = json.load(open(path))
    sc = scratch_dir(prop + "-replay")
    try:
        pkgdir = rec["pkgdir"]
        name = rec.get("pkgname") or os.path.basename(pkgdir)
        extra = {}
        for sub, virt in rec.get("third_party", []):
            extra.update(third_party_overlay(sub, virt))
        pkgs = [{"dir": pkgdir, "name": name}]
        if prepare:
            ex2, pk2 = prepare(sc)
            extra.update(ex2)
            pkgs += pk2
        ov = make_overlay(sc, pkgs, extra)
        binp = build_replay_bin(sc, ov, pkgdir)
        lab = rec["label"]
        try:
            outs = native_replay(sc, binp, [{"harness": rec["harness"], "case": rec["case"], "inputs": rec["inputs"]}],
                                 timeout=HANG_REPLAY_S if lab == "terminates-within-step-budget" else 600)
        except (subprocess.TimeoutExpired, Inconclusive):
            if lab != "terminates-within-step-budget":
                raise
            outs = [["VF-HANG native run still going after %d s" % HANG_REPLAY_S]]
        print("\n".join(outs[0]))
        if lab == "terminates-within-step-budget":
            bad = any(l.startswith("VF-HANG") for l in outs[0])
        elif lab == "uncaught-panic":
            bad = any(l.startswith("VF-PANIC") for l in outs[0])
        else:
            bad = ("VF-ASSERT-FAIL " + lab) in outs[0]
        print("REPRODUCED" if bad else "NOT-REPRODUCED")
        return 1 if bad else 0
    finally:
        shutil.rmtree(sc, ignore_errors=True)


def replay_via_run(prop, mod, path):
    """Replay an engine-found violation: the check's own run() rebuilds modules and generated harness files from the
    current tree (stopping before any exploration), then the recorded inputs are run natively."""
    global PREPARE_ONLY
    rec = json.load(open(path))
    PREPARE_ONLY = rec["pkgdir"]
    info = None
    try:
        mod.run(rec.get("tier", "quick"), 0)
    except Prepared as p:
        info = p.args[0]
    finally:
        PREPARE_ONLY = None
    if info is None:
        print("the check did not reach package %s while preparing" % rec["pkgdir"])
        return 3
    sc = info["scratch"]
    try:
        extra = dict(info["extra_overlay"])
        for sub, virt in rec.get("third_party", []):
            extra.update(third_party_overlay(sub, virt))
        ov = make_overlay(sc, [{"dir": info["pkgdir"], "name": info["pkgname"]}] + list(info["extra_pkgs"]), extra)
        binp = build_replay_bin(sc, ov, info["pkgdir"], tag="replayone")
        lab = rec["label"]
        try:
            outs = native_replay(sc, binp, [{"harness": rec["harness"], "case": rec["case"], "inputs": rec["inputs"]}],
                                 timeout=HANG_REPLAY_S if lab == "terminates-within-step-budget" else 600)
        except (subprocess.TimeoutExpired, Inconclusive):
            if lab != "terminates-within-step-budget":
                raise
            outs = [["VF-HANG native run still going after %d s" % HANG_REPLAY_S]]
        print("\n".join(outs[0]))
        if lab == "terminates-within-step-budget":
            bad = any(l.startswith("VF-HANG") for l in outs[0])
        elif lab == "uncaught-panic":
            bad = any(l.startswith("VF-PANIC") for l in outs[0])
        else:
            bad = ("VF-ASSERT-FAIL " + lab) in outs[0]
        print("REPRODUCED" if bad else "NOT-REPRODUCED")
        return 1 if bad else 0
    finally:
        shutil.rmtree(sc, ignore_errors=True)
