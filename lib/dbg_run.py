"""Developer tool: run one harness case of a package through gosym and print task statistics.
usage: dbg_run.py <pkgdir> <harness> <case> [extra gosym flags...]"""
import sys,time,os; sys.path.insert(0,os.path.dirname(os.path.abspath(__file__)))
import vlib, json, subprocess
pkg,harness,case=sys.argv[1],sys.argv[2],sys.argv[3]
extra_args=sys.argv[4:]
sc=vlib.scratch_dir('dbg')
extra={}
pkgs=[{"dir":pkg,"name":os.path.basename(pkg)}]
if 'wemu/loong64' in pkg:
    pkgs.append({"dir":"internal/native/loong64","name":"loong64"})
if 'loong64' in pkg:
    extra.update(vlib.third_party_overlay("xarch/loong64asm","internal/zzverif/loong64asm"))
if pkg.endswith('native/riscv'):
    extra.update(vlib.third_party_overlay("xarch/riscv64asm","internal/zzverif/riscv64asm"))
ov=vlib.make_overlay(sc,pkgs,extra)
t0=time.time()
cmd=[os.path.join(vlib.BIN,"gosym"),"-repo",vlib.REPO,"-overlay",ov,"-pkg","wa-lang.org/wa/"+pkg,"-harness",harness,"-case",case,"-jobs","1","-maxdecisions","3000","-out",sc+"/o.json"]+extra_args
try:
    r=subprocess.run(cmd,env=vlib.GOENV,capture_output=True,text=True,timeout=600)
    print(r.stderr[-1500:])
except subprocess.TimeoutExpired:
    print("TIMEOUT")
o=json.load(open(sc+"/o.json"))
if o.get('error'): print(o['error'][:2000])
for t in o.get('results',[]):
    print(round(time.time()-t0,1), {k:t.get(k) for k in ('paths','forks','decisions','queries','solver_ms','wall_ms','incomplete','q_unknown','notes','error')}, [c['label'] for c in (t.get('cex') or [])])
    if '-v' in os.environ.get('DBG',''):
        for c in (t.get('cex') or [])[:3]: print(c)
