"""Generator for C13: map operation histories in Wa (compiled by the tree) against the same code in Go.
Program dimension: key kind x operation script (enumerated).  Input dimension: the key values (symbolic,
may coincide, any order)."""
import itertools, os
import c01gen

# key kinds: name -> (params, Wa key type, Go key type, Wa key expr list, Go key expr list, assumptions)
def kinds():
    K = {}
    K["i32"] = ([("a", "i32"), ("b", "i32"), ("c", "i32")], "i32", "int32", ["a", "b", "c"], ["a", "b", "c"], [])
    K["i32x5"] = ([("a", "i32"), ("b", "i32"), ("c", "i32"), ("d", "i32"), ("e", "i32")], "i32", "int32",
                  ["a", "b", "c", "d", "e"], ["a", "b", "c", "d", "e"], [])
    K["i64"] = ([("a", "i64"), ("b", "i64"), ("c", "i64")], "i64", "int64", ["a", "b", "c"], ["a", "b", "c"], [])
    K["u8"] = ([("a", "u8"), ("b", "u8"), ("c", "u8")], "u8", "uint8", ["a", "b", "c"], ["a", "b", "c"], [])
    K["str"] = ([("a", "u8"), ("b", "u8"), ("c", "u8")], "string", "string",
                ["string([]byte{a, 'k'})", "string([]byte{'k', b})", "string([]byte{c})"],
                ["string([]byte{a, 'k'})", "string([]byte{'k', b})", "string([]byte{c})"], [])
    K["f64"] = ([("a", "f64"), ("b", "f64"), ("c", "f64")], "f64", "float64", ["a", "b", "c"], ["a", "b", "c"],
                ["a == a", "b == b", "c == c"])
    K["bool"] = ([("a", "bool"), ("b", "bool"), ("c", "bool")], "bool", "bool", ["a", "b", "c"], ["a", "b", "c"], [])
    K["struct"] = ([("a", "i32"), ("b", "i32"), ("c", "i32")], "vtKey", "vtKey",
                   ["vtKey{a, 1}", "vtKey{b, 1}", "vtKey{1, c}"], ["vtKey{a, 1}", "vtKey{b, 1}", "vtKey{1, c}"], [])
    K["ptr"] = ([("a", "i32"), ("b", "i32"), ("c", "i32")], "*i32", "*int32",
                ["&vtS.x", "&vtS.y", "&vtArr[1]", "&vtArr[0]", "&vtT.x"], ["&vtS.x", "&vtS.y", "&vtArr[1]", "&vtArr[0]", "&vtT.x"], [])
    K["iface"] = ([("a", "i32"), ("b", "i32"), ("c", "u8")], "interface{}", "interface{}",
                  ["a", "b", "string([]byte{c})"], ["a", "b", "string([]byte{c})"], [])
    return K


OPS = ["I0", "I1", "I2", "D0", "D1", "D2", "L0", "U1"]  # insert / delete / lookup / read-modify-write on key j


def scripts(tier):
    S = []
    tails = ["D0", "D1", "D2", "I0", "U1", "L2"]
    for t in itertools.product(tails, repeat=2):
        S.append(["I0", "I1", "I2"] + list(t))
    S += [["D0", "I0", "I1", "D0", "I0"], ["I0", "D0", "D0", "I0", "L0"], ["I2", "I1", "I0", "D1", "D2"], ["I0", "I0", "I1", "D1", "I1"]]
    if tier == "quick":
        S = S[:-4][::3] + S[-4:]
    out = []
    for x in S:
        if x not in out:
            out.append(x)
    return out


LONG_SCRIPTS = [["I0", "I1", "I2", "D1", "D2", "I3", "I4"], ["I0", "I1", "I2", "I3", "I4", "D0", "D2"], ["I0", "I1", "I2", "I3", "D1", "D3", "I4"],
                ["I0", "I1", "I2", "I3", "I4", "D2", "D3"], ["I0", "I1", "I2", "I3", "D0", "I4", "D1"]]


def body(lang, ktype, kexprs, script):
    U32 = "u32" if lang == "wa" else "uint32"
    lines = []
    nk = len(kexprs)
    lines.append("keys := [%d]%s{%s}" % (nk, ktype, ", ".join(kexprs)))
    lines.append("m := make(map[%s]%s)" % (ktype, U32))
    lines.append("h := %s(0)" % U32)
    for step, op in enumerate(script):
        j = int(op[1])
        if op[0] == "I":
            lines.append("m[keys[%d]] = %d" % (j, step + 1))
        elif op[0] == "D":
            lines.append("delete(m, keys[%d])" % j)
        elif op[0] == "U":
            lines.append("m[keys[%d]] += 100" % j)
        else:
            lines.append("{\n\t\tv, ok := m[keys[%d]]\n\t\th = h*31 + v\n\t\tif ok {\n\t\t\th += 7\n\t\t}\n\t}" % j)
        lines.append("h = h*31 + %s(len(m))" % U32)
    lines.append("cnt := %s(0)" % U32)
    lines.append("sum := %s(0)" % U32)
    lines.append("for k, v := range m {\n\t\tw, ok := m[k]\n\t\tif ok && w == v {\n\t\t\tcnt++\n\t\t}\n\t\tsum += v*40503 + 17\n\t}")
    lines.append("for j := 0; j < %d; j++ {" % nk + "\n\t\tv, ok := m[keys[j]]\n\t\th = h*31 + v\n\t\tif ok {\n\t\t\th += 3\n\t\t}\n\t}")
    lines.append("return h*31 + cnt*1000003 + sum")
    return "\n\t".join(lines)


WA_DECLS = """
type vtKey :struct {
	x, y: i32
}

global vtS: vtKey
global vtT: vtKey
global vtArr: [2]i32
"""
GO_DECLS = """
type vtKey struct{ x, y int32 }

var vtS, vtT vtKey
var vtArr [2]int32
"""


def gen(tier):
    T = []
    K = kinds()
    names = ["i32", "str", "i64", "struct", "ptr"] if tier == "quick" else [k for k in K if k != "i32x5"]
    for kn in names:
        params, wk, gk, wke, gke, assume = K[kn]
        for si, sc in enumerate(scripts(tier)):
            T.append(("map_%s_%s" % (kn, "_".join(sc)), params, "u32", body("wa", wk, wke[:3], sc), body("go", gk, gke[:3], sc), list(assume)))
    # longer histories on five keys: symbolic i32 keys (every order and coincidence) and pointer keys that share blocks
    for kn in ["i32x5", "ptr"]:
        params, wk, gk, wke, gke, assume = K[kn]
        for sc in (LONG_SCRIPTS[:3] if tier == "quick" else LONG_SCRIPTS):
            T.append(("map_%s_%s" % (kn, "_".join(sc)), params, "u32", body("wa", wk, wke, sc), body("go", gk, gke, sc), list(assume)))
    only = os.environ.get("VERIF_ONLY")
    if only:
        T = [t for t in T if any(o in t[0] for o in only.split(","))]
    return c01gen.gen_from(T, "c13", wa_extra=WA_DECLS, go_extra=GO_DECLS, run_start=True)
