#!/usr/bin/env python3
"""Confirm a seeded change whose demonstration is a shell script taking the built `wa` binary.
usage: seed_confirm_sh.py <property> <src dir with patch.diff/demo.sh/README.md> <name>"""
import json, os, shutil, subprocess, sys, time
prop, src, name = sys.argv[1:4]
V = os.path.dirname(os.path.dirname(os.path.abspath(__file__)))
env = dict(os.environ, GOFLAGS="-mod=mod", GOPROXY="off", GOSUMDB="off", GOTOOLCHAIN="local")
wt = "/tmp/wtc-%s" % name
def sh(cmd, cwd=wt, check=False):
    r = subprocess.run(cmd, shell=True, cwd=cwd, env=env, capture_output=True, text=True)
    if check and r.returncode != 0:
        raise SystemExit("FAILED: %s\n%s" % (cmd, r.stdout + r.stderr))
    return r
subprocess.run("git -C /repo worktree remove --force %s 2>/dev/null; git -C /repo worktree add -q --detach %s HEAD" % (wt, wt), shell=True, check=True)
try:
    sh("go build -o /tmp/wa-clean-%s ." % name, check=True)
    sh("git apply %s/patch.diff" % src, check=True)
    sh("go build ./... && go build -o /tmp/wa-patched-%s ." % name, check=True)
    t = sh("go test -vet=off -count=1 ./... 2>&1 | grep -v 'no test files' | grep -v '^ok' | head -20")
    if "FAIL" in t.stdout:
        raise SystemExit("existing suite fails with the patch:\n" + t.stdout)
    r1 = subprocess.run(["bash", os.path.join(src, "demo.sh"), "/tmp/wa-patched-%s" % name], capture_output=True, text=True, env=env)
    r2 = subprocess.run(["bash", os.path.join(src, "demo.sh"), "/tmp/wa-clean-%s" % name], capture_output=True, text=True, env=env)
    print("with patch: demo exit =", r1.returncode, "| without: demo exit =", r2.returncode)
    if not (r1.returncode != 0 and r2.returncode == 0):
        print(r1.stdout[-800:], r2.stdout[-800:])
        raise SystemExit("NOT CONFIRMED")
    out = os.path.join(V, "seeded", name)
    os.makedirs(out, exist_ok=True)
    for f in ("patch.diff", "demo.sh", "README.md"):
        shutil.copy(os.path.join(src, f), os.path.join(out, f))
    meta = {"property": prop, "name": name, "demo": "demo.sh <wa binary>",
            "confirmed": {"date": time.strftime("%Y-%m-%d"), "patch_applies": True, "go_build": "ok",
                          "existing_suite_with_patch": "no FAIL lines", "demo_with_patch": "exit %d" % r1.returncode, "demo_without_patch": "exit 0",
                          "commands": ["git apply patch.diff", "go build ./... && go build -o wa .", "go test -vet=off -count=1 ./...", "bash demo.sh ./wa"]},
            "needs_to_manifest": "see README.md", "detected_by": None}
    json.dump(meta, open(os.path.join(out, "meta.json"), "w"), indent=1)
    print("filed", out)
finally:
    subprocess.run("git -C /repo worktree remove --force %s; rm -f /tmp/wa-clean-%s /tmp/wa-patched-%s" % (wt, name, name), shell=True)
