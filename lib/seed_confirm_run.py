#!/usr/bin/env python3
"""Confirm a seeded change whose demonstration is a Go main package run from the worktree root
(`go run ./_demo`: exit 0 = property held, non-zero = violated).
usage: seed_confirm_run.py <property> <src dir with patch.diff, README.txt and the demo> <name>"""
import glob, json, os, shutil, subprocess, sys, time
prop, src, name = sys.argv[1:4]
V = os.path.dirname(os.path.dirname(os.path.abspath(__file__)))
env = dict(os.environ, GOFLAGS="-mod=mod", GOPROXY="off", GOSUMDB="off", GOTOOLCHAIN="local")
wt = "/tmp/wtc-%s" % name
def sh(cmd, cwd=wt, check=False, timeout=1800):
    r = subprocess.run(cmd, shell=True, cwd=cwd, env=env, capture_output=True, text=True, timeout=timeout)
    if check and r.returncode != 0:
        raise SystemExit("FAILED: %s\n%s" % (cmd, (r.stdout + r.stderr)[-2000:]))
    return r
# locate the demo sources
demo_files = []
for pat in ("_demo_*/*.go", "demo_main.go", "main.go", "_demo_*/*"):
    demo_files = sorted(glob.glob(os.path.join(src, pat)))
    if demo_files:
        break
if not demo_files:
    raise SystemExit("no demo found in " + src)
subprocess.run("git -C /repo worktree remove --force %s 2>/dev/null; git -C /repo worktree add -q --detach %s HEAD" % (wt, wt), shell=True, check=True)
try:
    os.makedirs(os.path.join(wt, "_demo"))
    for f in demo_files:
        dst = "main.go" if os.path.basename(f) in ("demo_main.go",) else os.path.basename(f)
        shutil.copy(f, os.path.join(wt, "_demo", dst))
    r2 = sh("timeout 600 go run ./_demo")
    sh("git apply %s/patch.diff" % src, check=True)
    sh("go build ./...", check=True)
    t = sh("go test -vet=off -count=1 ./... 2>&1 | grep -v 'no test files' | grep -v '^ok' | head -20")
    if "FAIL" in t.stdout:
        raise SystemExit("existing suite fails with the patch:\n" + t.stdout)
    r1 = sh("timeout 600 go run ./_demo")
    print("with patch: demo exit =", r1.returncode, "| without: demo exit =", r2.returncode)
    if not (r1.returncode != 0 and r2.returncode == 0):
        print(r1.stdout[-800:], r1.stderr[-400:], "----", r2.stdout[-800:], r2.stderr[-400:])
        raise SystemExit("NOT CONFIRMED")
    out = os.path.join(V, "seeded", name)
    os.makedirs(os.path.join(out, "demo"), exist_ok=True)
    shutil.copy(os.path.join(src, "patch.diff"), out)
    for f in ("README.txt", "README.md"):
        if os.path.exists(os.path.join(src, f)):
            shutil.copy(os.path.join(src, f), os.path.join(out, "README.md"))
    for f in os.listdir(os.path.join(wt, "_demo")):
        shutil.copy(os.path.join(wt, "_demo", f), os.path.join(out, "demo", f))
    meta = {"property": prop, "name": name, "demo": "copy demo/ to <worktree>/_demo and `go run ./_demo` (exit 0 = property held)",
            "confirmed": {"date": time.strftime("%Y-%m-%d"), "patch_applies": True, "go_build": "ok",
                          "existing_suite_with_patch": "no FAIL lines", "demo_with_patch": "exit %d" % r1.returncode, "demo_without_patch": "exit 0",
                          "demo_output_with_patch": (r1.stdout + r1.stderr)[-600:],
                          "commands": ["git apply patch.diff", "go build ./...", "go test -vet=off -count=1 ./...", "go run ./_demo"]},
            "needs_to_manifest": "see README.md", "detected_by": None}
    json.dump(meta, open(os.path.join(out, "meta.json"), "w"), indent=1)
    print("filed", out)
finally:
    subprocess.run("git -C /repo worktree remove --force %s" % wt, shell=True)
