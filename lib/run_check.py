import argparse, importlib.util, os, sys, traceback
sys.path.insert(0, os.path.dirname(os.path.abspath(__file__)))
import vlib

def main():
    ap = argparse.ArgumentParser()
    ap.add_argument("prop")
    ap.add_argument("--tier", default=os.environ.get("VERIF_TIER", "quick"))
    ap.add_argument("--replay")
    ap.add_argument("--jobs", type=int, default=0)
    a = ap.parse_args()
    seed = int(os.environ.get("VERIF_SEED", "0") or 0)
    path = os.path.join(vlib.VERIF, "checks", a.prop + ".py")
    if not os.path.exists(path):
        print("no such check", a.prop)
        sys.exit(3)
    spec = importlib.util.spec_from_file_location("chk_" + a.prop, path)
    mod = importlib.util.module_from_spec(spec)
    spec.loader.exec_module(mod)
    try:
        if a.replay:
            import json
            rec = json.load(open(a.replay))
            if rec.get("engine") == "gosym":
                rc = vlib.replay_via_run(a.prop, mod, a.replay)
            elif hasattr(mod, "replay"):
                rc = mod.replay(a.replay)
            else:
                rc = vlib.replay_file(a.prop, a.replay)
        else:
            rc = mod.run(a.tier, seed)
    except vlib.Inconclusive as e:
        print("INCONCLUSIVE: %s" % str(e)[:4000])
        rc = 3
    except Exception:
        traceback.print_exc()
        print("INCONCLUSIVE: check driver crashed")
        rc = 3
    sys.exit(rc)

main()
