"""Helper for the maintainer of known_findings.txt (never run by a check):
prints `finding:` lines for the replay files of the last run of a property so
that they can be reviewed and pasted by hand.  usage: gen_findings.py Cxx [text]"""
import glob, json, os, sys
prop = sys.argv[1]
text = sys.argv[2] if len(sys.argv) > 2 else ""
here = os.path.dirname(os.path.dirname(os.path.abspath(__file__)))
for f in sorted(glob.glob(os.path.join(here, "replays", prop, "*.json"))):
    r = json.load(open(f))
    key = "%s/%s/%s" % (r["harness"], r["case_name"], r["label"])
    logs = "; ".join(x[7:] for x in r["observed_native"] if x.startswith("VF-LOG"))
    obs = " ".join(x[7:] for x in r["observed_native"] if x.startswith("VF-OBS"))
    ins = " ".join("%s=%s" % (k, v) for k, v in sorted(r["inputs"].items()))
    print("finding: property=%s key=%s :: %s [inputs %s; %s; %s]" % (prop, key, text, ins, obs, logs))
