"""Generator for the C01 template families: one Wa source with exported functions over scalar
parameters and the same programs written in Go (the twin), plus the harness glue."""

GO = {"u8": "uint8", "u16": "uint16", "i32": "int32", "u32": "uint32", "i64": "int64", "u64": "uint64",
      "f32": "float32", "f64": "float64", "bool": "bool", "int": "int32", "uint": "uint32"}
BITS = {"u8": 8, "u16": 16, "i32": 32, "u32": 32, "i64": 64, "u64": 64, "f32": 32, "f64": 64, "bool": 1, "int": 32, "uint": 32}
INTS = ["u8", "u16", "i32", "u32", "i64", "u64"]
FLOATS = ["f32", "f64"]
SIGNED = {"i32", "i64", "int"}


def is_float(t):
    return t in FLOATS


def templates(tier):
    """yield (name, [(pname, wa_type)], result_type, wa_body, go_body, assumptions(list of Go bool exprs over typed params))"""
    T = []
    opn = {"+": "add", "-": "sub", "*": "mul", "/": "div", "%": "rem", "&": "and", "|": "or", "^": "xor", "&^": "andnot",
           "<<": "shl", ">>": "shr", "==": "eq", "!=": "ne", "<": "lt", "<=": "le", ">": "gt", ">=": "ge"}
    for t in INTS:
        for op in ["+", "-", "*", "/", "%", "&", "|", "^", "&^"]:
            zone = None
            if op == "/" and t in SIGNED:
                zone = ("a == -1<<%d && b == -1" % (BITS[t] - 1), "@minint-div-minus-one")
            T.append(("%s_%s" % (opn[op], t), [("a", t), ("b", t)], t, "return a %s b" % op, "return a %s b" % op, [], zone))
        for op in ["<<", ">>"]:
            for ct in ["u32", "u64"] if tier != "quick" else ["u32"]:
                T.append(("%s_%s_by_%s" % (opn[op], t, ct), [("a", t), ("n", ct)], t, "return a %s n" % op, "return a %s n" % op, [],
                          ("uint64(n) >= %d" % BITS[t], "@shift-count>=width")))
        T.append(("neg_%s" % t, [("a", t)], t, "return -a", "return -a", []))
        T.append(("not_%s" % t, [("a", t)], t, "return ^a", "return ^a", []))
        for op in ["==", "!=", "<", "<=", ">", ">="]:
            T.append(("%s_%s" % (opn[op], t), [("a", t), ("b", t)], "bool", "return a %s b" % op, "return a %s b" % op, []))
    for t in FLOATS:
        for op in ["+", "-", "*", "/"]:
            T.append(("%s_%s" % (opn[op], t), [("a", t), ("b", t)], t, "return a %s b" % op, "return a %s b" % op, []))
        T.append(("neg_%s" % t, [("a", t)], t, "return -a", "return -a", []))
        for op in ["==", "!=", "<", "<=", ">", ">="]:
            T.append(("%s_%s" % (opn[op], t), [("a", t), ("b", t)], "bool", "return a %s b" % op, "return a %s b" % op, []))
    # conversions
    allt = INTS + FLOATS
    for s in allt:
        for d in allt:
            if s == d:
                continue
            assume = []
            if is_float(s) and not is_float(d):
                # Go leaves float -> integer conversion of unrepresentable values implementation-defined
                lo, hi = (-(2 ** (BITS[d] - 1)), 2 ** (BITS[d] - 1)) if d in SIGNED else (0, 2 ** BITS[d])
                assume = ["a == a", "float64(a) > %d.0 - 1.0" % lo if lo == 0 else "float64(a) >= %d.0" % lo, "float64(a) < %d.0" % hi]
            T.append(("conv_%s_to_%s" % (s, d), [("a", s)], d, "return %s(a)" % d, "return %s(a)" % GO[d], assume))
    # boolean connectives and control flow
    T.append(("andor", [("a", "i32"), ("b", "i32"), ("c", "i32")], "bool", "return a < b && b < c || a == c", "return a < b && b < c || a == c", []))
    T.append(("notb", [("a", "i32"), ("b", "i32")], "bool", "return !(a < b)", "return !(a < b)", []))
    T.append(("ifelse", [("a", "i32"), ("b", "i32")], "i32",
              "if a < b {\n\t\treturn b - a\n\t} else if a == b {\n\t\treturn 0\n\t}\n\treturn a - b",
              "if a < b {\n\t\treturn b - a\n\t} else if a == b {\n\t\treturn 0\n\t}\n\treturn a - b", []))
    T.append(("loopsum", [("n", "i32"), ("x", "i32")], "i32",
              "s := i32(0)\n\tfor i := i32(0); i < n; i++ {\n\t\ts += x * i\n\t}\n\treturn s",
              "s := int32(0)\n\tfor i := int32(0); i < n; i++ {\n\t\ts += x * i\n\t}\n\treturn s", ["n <= 4"]))
    T.append(("switch3", [("a", "u32")], "u32",
              "switch a %% 3 {\n\tcase 0:\n\t\treturn a / 3\n\tcase 1:\n\t\treturn a * 3\n\t}\n\treturn a".replace("%%", "%"),
              "switch a %% 3 {\n\tcase 0:\n\t\treturn a / 3\n\tcase 1:\n\t\treturn a * 3\n\t}\n\treturn a".replace("%%", "%"), []))
    T.append(("mixed_widths", [("a", "u8"), ("b", "i64"), ("c", "u16")], "i64", "return i64(a)*b - i64(c)<<3", "return int64(a)*b - int64(c)<<3", []))
    T.append(("u8_wrap", [("a", "u8"), ("b", "u8")], "u32", "return u32(a+b) + u32(a*b)", "return uint32(a+b) + uint32(a*b)", []))
    T.append(("u16_wrap", [("a", "u16"), ("b", "u16")], "u32", "return u32(a-b) + u32(a<<3)", "return uint32(a-b) + uint32(a<<3)", []))
    return T


WA_DECLS = """
type vtP :struct {
	x, y: i32
}

type vtQ :struct {
	p: vtP
	k: i64
}

func vtP.Sum => i32 { return this.x + this.y }

func vtP.Scale(f: i32) { this.x *= f; this.y *= f }

type vtShape :interface {
	Area() => i32
}

type vtRect :struct {
	w, h: i32
}

type vtSq :struct {
	s: i32
}

func vtRect.Area => i32 { return this.w * this.h }

func vtSq.Area => i32 { return this.s * this.s }

func vtFact(n: i32) => i32 {
	if n <= 1 {
		return 1
	}
	return n * vtFact(n-1)
}

func vtDivMod(a, b: i32) => (q, r: i32) {
	return a / b, a % b
}

func vtApply(f: func(i32) => i32, v: i32) => i32 { return f(f(v)) }

func vtDefer(a: i32) => (r: i32) {
	defer func() { r += a }()
	r = a * 2
	return r
}
"""

GO_DECLS = """
type vtP struct{ x, y int32 }

type vtQ struct {
	p vtP
	k int64
}

func (this *vtP) Sum() int32 { return this.x + this.y }

func (this *vtP) Scale(f int32) { this.x *= f; this.y *= f }

type vtShape interface{ Area() int32 }

type vtRect struct{ w, h int32 }

type vtSq struct{ s int32 }

func (this *vtRect) Area() int32 { return this.w * this.h }

func (this *vtSq) Area() int32 { return this.s * this.s }

func vtFact(n int32) int32 {
	if n <= 1 {
		return 1
	}
	return n * vtFact(n-1)
}

func vtDivMod(a, b int32) (q, r int32) { return a / b, a % b }

func vtApply(f func(int32) int32, v int32) int32 { return f(f(v)) }

func vtDefer(a int32) (r int32) {
	defer func() { r += a }()
	r = a * 2
	return r
}
"""


def aggregate_templates():
    """aggregates, strings, closures, methods, interfaces, defer: each wrapped so that parameters and the result are scalars"""
    T = []
    def both(name, params, res, body, assume=(), go=None):
        T.append((name, params, res, body, go if go is not None else body, list(assume)))
    xy = [("x", "i32"), ("y", "i32")]
    xyz = [("x", "i32"), ("y", "i32"), ("z", "i32")]
    both("arr_swap", xy, "i32", "a := [2]i32{x, y}\n\ta = [2]i32{a[1], a[0]}\n\treturn a[0]*3 + a[1]", go="a := [2]int32{x, y}\n\ta = [2]int32{a[1], a[0]}\n\treturn a[0]*3 + a[1]")
    both("arr_rotate", xyz, "i32", "a := [3]i32{x, y, z}\n\ta = [3]i32{a[2], a[0], a[1]}\n\treturn a[0]*5 + a[1]*3 + a[2]", go="a := [3]int32{x, y, z}\n\ta = [3]int32{a[2], a[0], a[1]}\n\treturn a[0]*5 + a[1]*3 + a[2]")
    both("arr_partial_literal", xy, "i32", "a := [4]i32{x, y, x, y}\n\ta = [4]i32{y, x}\n\treturn a[0]*7 + a[1]*5 + a[2]*3 + a[3]", go="a := [4]int32{x, y, x, y}\n\ta = [4]int32{y, x}\n\treturn a[0]*7 + a[1]*5 + a[2]*3 + a[3]")
    both("arr_copy_is_value", xy, "i32", "a := [2]i32{x, y}\n\tb := a\n\tb[0] = 9\n\treturn a[0]*3 + b[0] + b[1]", go="a := [2]int32{x, y}\n\tb := a\n\tb[0] = 9\n\treturn a[0]*3 + b[0] + b[1]")
    both("arr_of_struct_swap", xy, "i32", "a := [2]vtP{{x, y}, {y, 7}}\n\ta = [2]vtP{a[1], a[0]}\n\treturn a[0].x*7 + a[0].y*5 + a[1].x*3 + a[1].y")
    both("arr_index_var", [("x", "i32"), ("i", "u32")], "i32", "a := [4]i32{x, x + 1, x * 2, 5}\n\treturn a[i%4]", go="a := [4]int32{x, x + 1, x * 2, 5}\n\treturn a[i%4]")
    both("arr_range_sum", xyz, "i32", "a := [3]i32{x, y, z}\n\ts := i32(0)\n\tfor i, v := range a {\n\t\ts += v * i32(i+1)\n\t}\n\treturn s", go="a := [3]int32{x, y, z}\n\ts := int32(0)\n\tfor i, v := range a {\n\t\ts += v * int32(i+1)\n\t}\n\treturn s")
    both("struct_swap_fields", xy, "i32", "p := vtP{x, y}\n\tp = vtP{p.y, p.x}\n\treturn p.x*3 + p.y")
    both("struct_keyed_partial", xy, "i32", "p := vtP{x, y}\n\tp = vtP{y: p.x}\n\treturn p.x*3 + p.y")
    both("struct_nested", [("x", "i32"), ("k", "i64")], "i64", "q := vtQ{vtP{x, x + 1}, k}\n\tr := q\n\tr.p.x = 4\n\treturn i64(q.p.x)*3 + i64(r.p.x) + r.k + i64(q.p.y)", go="q := vtQ{vtP{x, x + 1}, k}\n\tr := q\n\tr.p.x = 4\n\treturn int64(q.p.x)*3 + int64(r.p.x) + r.k + int64(q.p.y)")
    both("struct_pointer_alias", xy, "i32", "p := &vtP{x, y}\n\tq := p\n\tq.x += 5\n\treturn p.x*3 + q.y")
    both("method_value_and_pointer", xy, "i32", "p := vtP{x, y}\n\tp.Scale(3)\n\treturn p.Sum()")
    both("iface_dispatch", [("x", "i32"), ("y", "i32"), ("sel", "bool")], "i32", "s: vtShape\n\tif sel {\n\t\ts = &vtRect{x, y}\n\t} else {\n\t\ts = &vtSq{x}\n\t}\n\treturn s.Area()", go="var s vtShape\n\tif sel {\n\t\ts = &vtRect{x, y}\n\t} else {\n\t\ts = &vtSq{x}\n\t}\n\treturn s.Area()")
    both("iface_type_switch", [("x", "i32"), ("sel", "bool")], "i32", "s: vtShape = &vtSq{x}\n\tif sel {\n\t\ts = &vtRect{x, 2}\n\t}\n\tswitch v := s.(type) {\n\tcase *vtRect:\n\t\treturn v.w + 100\n\tcase *vtSq:\n\t\treturn v.s + 200\n\t}\n\treturn 0", go="var s vtShape = &vtSq{x}\n\tif sel {\n\t\ts = &vtRect{x, 2}\n\t}\n\tswitch v := s.(type) {\n\tcase *vtRect:\n\t\treturn v.w + 100\n\tcase *vtSq:\n\t\treturn v.s + 200\n\t}\n\treturn 0")
    both("slice_append_alias", xyz, "i32", "s := []i32{x, y}\n\tt := append(s, z)\n\tt[0] = 1\n\treturn s[0]*7 + t[0]*5 + t[2]*3 + i32(len(t)) + i32(len(s))", go="s := []int32{x, y}\n\tt := append(s, z)\n\tt[0] = 1\n\treturn s[0]*7 + t[0]*5 + t[2]*3 + int32(len(t)) + int32(len(s))")
    both("slice_of_array_shares", xyz, "i32", "a := [3]i32{x, y, z}\n\ts := a[1:]\n\ts[0] = 8\n\treturn a[1]*5 + s[1] + i32(len(s))*100 + i32(cap(s))*1000", go="a := [3]int32{x, y, z}\n\ts := a[1:]\n\ts[0] = 8\n\treturn a[1]*5 + s[1] + int32(len(s))*100 + int32(cap(s))*1000")
    both("slice_copy_overlap", xyz, "i32", "s := []i32{x, y, z, 4}\n\tn := copy(s[1:], s)\n\treturn s[0]*7 + s[1]*5 + s[2]*3 + s[3] + i32(n)*1000", go="s := []int32{x, y, z, 4}\n\tn := copy(s[1:], s)\n\treturn s[0]*7 + s[1]*5 + s[2]*3 + s[3] + int32(n)*1000")
    both("slice_make_zero", [("x", "i32"), ("i", "u32")], "i32", "s := make([]i32, 3)\n\ts[i%3] = x\n\treturn s[0]*5 + s[1]*3 + s[2]", go="s := make([]int32, 3)\n\ts[i%3] = x\n\treturn s[0]*5 + s[1]*3 + s[2]")
    both("closure_capture_by_ref", xy, "i32", "c := x\n\tf := func(d: i32) => i32 {\n\t\tc += d\n\t\treturn c\n\t}\n\tf(y)\n\treturn f(1)*3 + c", go="c := x\n\tf := func(d int32) int32 {\n\t\tc += d\n\t\treturn c\n\t}\n\tf(y)\n\treturn f(1)*3 + c")
    both("closure_as_argument", xy, "i32", "return vtApply(func(v: i32) => i32 { return v*y + 1 }, x)", go="return vtApply(func(v int32) int32 { return v*y + 1 }, x)")
    both("multi_return", xy, "i32", "q, r := vtDivMod(x, y)\n\treturn q*3 + r", assume=["y != 0", "!(x == -1<<31 && y == -1)"])
    both("recursion_fact", [("n", "i32")], "i32", "return vtFact(n)", assume=["n <= 6"])
    both("defer_modifies_result", [("x", "i32")], "i32", "return vtDefer(x)")
    both("for_break_continue", [("n", "i32")], "i32", "s := i32(0)\n\tfor i := i32(0); i < 8; i++ {\n\t\tif i == n {\n\t\t\tbreak\n\t\t}\n\t\tif i%2 == 0 {\n\t\t\tcontinue\n\t\t}\n\t\ts += i\n\t}\n\treturn s", go="s := int32(0)\n\tfor i := int32(0); i < 8; i++ {\n\t\tif i == n {\n\t\t\tbreak\n\t\t}\n\t\tif i%2 == 0 {\n\t\t\tcontinue\n\t\t}\n\t\ts += i\n\t}\n\treturn s")
    both("switch_multi_value", [("a", "u32")], "u32", "r := u32(0)\n\tswitch a % 5 {\n\tcase 0, 3:\n\t\tr += 1\n\tcase 1:\n\t\tr += 10\n\tcase 2:\n\t\tr += 100\n\tdefault:\n\t\tr += 1000\n\t}\n\treturn r", go="r := uint32(0)\n\tswitch a % 5 {\n\tcase 0, 3:\n\t\tr += 1\n\tcase 1:\n\t\tr += 10\n\tcase 2:\n\t\tr += 100\n\tdefault:\n\t\tr += 1000\n\t}\n\treturn r")
    both("slice_append_fills_capacity", xy, "i32", "s := make([]i32, 3, 4)\n\ta := append(s, x)\n\tb := append(s, y)\n\treturn a[3]*7 + b[3]*5 + i32(len(a))*100 + i32(cap(b))*1000", go="s := make([]int32, 3, 4)\n\ta := append(s, x)\n\tb := append(s, y)\n\treturn a[3]*7 + b[3]*5 + int32(len(a))*100 + int32(cap(b))*1000")
    both("slice_append_into_array_tail", xy, "i32", "arr: [4]i32\n\tt := append(arr[:3], x)\n\tu := append(arr[:2], y)\n\treturn arr[3]*7 + arr[2]*5 + t[3]*3 + u[2]", go="var arr [4]int32\n\tt := append(arr[:3], x)\n\tu := append(arr[:2], y)\n\treturn arr[3]*7 + arr[2]*5 + t[3]*3 + u[2]")
    both("labelled_continue_runs_post", [("v", "u32")], "u32", "g := [3][3]u32{{1, 2, 3}, {4, v % 8, 6}, {7, 8, 9}}\n\tn := u32(0)\n\tvisited := u32(0)\nrows:\n\tfor r := u32(0); r < 3 && visited < 6; r++ {\n\t\tvisited++\n\t\tfor c := u32(0); c < 3; c++ {\n\t\t\tif g[r][c] == 5 {\n\t\t\t\tcontinue rows\n\t\t\t}\n\t\t}\n\t\tn += r + 1\n\t}\n\treturn n*10 + visited", go="g := [3][3]uint32{{1, 2, 3}, {4, v % 8, 6}, {7, 8, 9}}\n\tn := uint32(0)\n\tvisited := uint32(0)\nrows:\n\tfor r := uint32(0); r < 3 && visited < 6; r++ {\n\t\tvisited++\n\t\tfor c := uint32(0); c < 3; c++ {\n\t\t\tif g[r][c] == 5 {\n\t\t\t\tcontinue rows\n\t\t\t}\n\t\t}\n\t\tn += r + 1\n\t}\n\treturn n*10 + visited")
    both("labelled_break_outer", [("v", "u32")], "u32", "n := u32(0)\nouter:\n\tfor i := u32(0); i < 4; i++ {\n\t\tfor j := u32(0); j < 4; j++ {\n\t\t\tif i*4+j == v%16 {\n\t\t\t\tbreak outer\n\t\t\t}\n\t\t\tn++\n\t\t}\n\t}\n\treturn n", go="n := uint32(0)\nouter:\n\tfor i := uint32(0); i < 4; i++ {\n\t\tfor j := uint32(0); j < 4; j++ {\n\t\t\tif i*4+j == v%16 {\n\t\t\t\tbreak outer\n\t\t\t}\n\t\t\tn++\n\t\t}\n\t}\n\treturn n")
    both("string_compare_lengths", [("a", "u8"), ("b", "u8")], "u32", "s := string([]byte{a})\n\tt := string([]byte{b, 'x', 'y'})\n\tu := string([]byte{a, 'x', 'y', 'z'})\n\tr := u32(0)\n\tif s < t {\n\t\tr += 1\n\t}\n\tif s >= u {\n\t\tr += 2\n\t}\n\tif u > s {\n\t\tr += 4\n\t}\n\tif t <= u {\n\t\tr += 8\n\t}\n\tif \"\" < s {\n\t\tr += 16\n\t}\n\treturn r", go="s := string([]byte{a})\n\tt := string([]byte{b, 'x', 'y'})\n\tu := string([]byte{a, 'x', 'y', 'z'})\n\tr := uint32(0)\n\tif s < t {\n\t\tr += 1\n\t}\n\tif s >= u {\n\t\tr += 2\n\t}\n\tif u > s {\n\t\tr += 4\n\t}\n\tif t <= u {\n\t\tr += 8\n\t}\n\tif \"\" < s {\n\t\tr += 16\n\t}\n\treturn r")
    # strings and runes
    both("rune_to_string_len", [("r", "i32")], "i32", "return i32(len(string(rune(r))))", go="return int32(len(string(rune(r))))")
    both("rune_to_string_bytes", [("r", "i32")], "u32", "s := string(rune(r))\n\tv := u32(0)\n\tfor i := 0; i < len(s); i++ {\n\t\tv = v<<8 | u32(s[i])\n\t}\n\treturn v", go="s := string(rune(r))\n\tv := uint32(0)\n\tfor i := 0; i < len(s); i++ {\n\t\tv = v<<8 | uint32(s[i])\n\t}\n\treturn v")
    both("runes_to_string_len", [("r", "i32"), ("q", "i32")], "i32", "return i32(len(string([]rune{'a', rune(r), rune(q)})))", go="return int32(len(string([]rune{'a', rune(r), rune(q)})))")
    both("string_concat_index", [("a", "u8"), ("b", "u8"), ("i", "u32")], "u32", "s := string([]byte{a, 'x'}) + string([]byte{b})\n\treturn u32(s[i%3]) + u32(len(s))*1000", go="s := string([]byte{a, 'x'}) + string([]byte{b})\n\treturn uint32(s[i%3]) + uint32(len(s))*1000")
    both("string_compare", [("a", "u8"), ("b", "u8")], "u32", "s := string([]byte{a, 'm'})\n\tt := string([]byte{b, 'm'})\n\tr := u32(0)\n\tif s < t {\n\t\tr += 1\n\t}\n\tif s == t {\n\t\tr += 10\n\t}\n\tif s >= \"mm\" {\n\t\tr += 100\n\t}\n\treturn r", go="s := string([]byte{a, 'm'})\n\tt := string([]byte{b, 'm'})\n\tr := uint32(0)\n\tif s < t {\n\t\tr += 1\n\t}\n\tif s == t {\n\t\tr += 10\n\t}\n\tif s >= \"mm\" {\n\t\tr += 100\n\t}\n\treturn r")
    both("string_range_runes", [("a", "u8"), ("b", "u8")], "u32", "s := string([]byte{a, b, 'z'})\n\tv := u32(0)\n\tfor i, r := range s {\n\t\tv = v*31 + u32(r) + u32(i)\n\t}\n\treturn v", go="s := string([]byte{a, b, 'z'})\n\tv := uint32(0)\n\tfor i, r := range s {\n\t\tv = v*31 + uint32(r) + uint32(i)\n\t}\n\treturn v")
    both("bytes_of_string_is_copy", [("a", "u8")], "u32", "s := string([]byte{a, 'k'})\n\tb := []byte(s)\n\tb[0] = 'q'\n\treturn u32(s[0])*256 + u32(b[0])", go="s := string([]byte{a, 'k'})\n\tb := []byte(s)\n\tb[0] = 'q'\n\treturn uint32(s[0])*256 + uint32(b[0])")
    return T


def gen(tier):
    import os
    T = templates(tier) + aggregate_templates()
    only = os.environ.get("VERIF_ONLY")  # developer aid: restrict to templates whose name contains one of these
    if only:
        T = [t for t in T if any(o in t[0] for o in only.split(","))]
    return gen_from(T, "c01", wa_extra=WA_DECLS, go_extra=GO_DECLS)


def gen_from(T, tag, wa_imports=(), go_imports=(), wa_extra="", go_extra="", run_start=False):
    """tag: prefix of assertion labels, harness (VfH_<tag>), module name and generated identifiers"""
    TAG = tag.upper()
    wa = ["// generated by /verif/lib/c01gen.py\n" + "".join('import "%s"\n' % i for i in wa_imports) + wa_extra]
    go = ["//go:build verif\n\npackage wh\n\n// generated by /verif/lib/c01gen.py: Go twins of the Wa templates and the per-template harness glue\n\nimport (\n\t\"math\"\n" +
          "".join('\t%s\n' % (i if '"' in i else '"%s"' % i) for i in go_imports) + ")\n\nvar _ = math.Float32bits\n" + go_extra]
    cases = []
    for tpl in T:
        name, params, res, wa_body, go_body, assume = tpl[:6]
        zone = tpl[6] if len(tpl) > 6 else None
        prelude = tpl[7] if len(tpl) > 7 else []  # Go statements that may narrow r_<param> / <param> structurally
        ps = ", ".join("%s: %s" % (p, t) for p, t in params)
        wa.append("#wa:export t_%s\nfunc t_%s(%s) => %s {\n\t%s\n}\n" % (name, name, ps, res, wa_body))
        gps = ", ".join("%s %s" % (p, GO[t]) for p, t in params)
        go.append("func vfTwin%s_%s(%s) %s {\n\t%s\n}\n" % (TAG, name, gps, GO[res], go_body))
        # harness glue
        g = ["func vfCase%s_%s() {" % (TAG, name)]
        raw, typed = [], []
        for p, t in params:
            b = BITS[t]
            if t == "bool":
                g.append("\t%s := vfBool(\"%s\")" % (p, p))
                raw.append("vfB2U(%s)" % p)
            elif is_float(t):
                g.append("\tr_%s := vfU%d(\"%s.%s\")" % (p, b, p, t))
                g.append("\t%s := math.Float%dfrombits(r_%s)" % (p, b, p))
                raw.append("uint64(r_%s)" % p)
            else:
                g.append("\tr_%s := vfU%d(\"%s.%s\")" % (p, b, p, t))
                g.append("\t%s := %s(r_%s)" % (p, GO[t], p))
                # the wasm ABI passes sub-word and 32-bit integers in an i32: zero-extended bits of the value
                raw.append("uint64(r_%s)" % p)
        for st in prelude:
            g.append("\t" + st)
        for a in assume:
            g.append("\tvfAssume(%s)" % a)
        g.append("\tvar want %s" % GO[res])
        g.append("\tpanicked := vfCatch(func() { want = vfTwin%s_%s(%s) })" % (TAG, name, ", ".join(p for p, _ in params)))
        g.append("\tif panicked {\n\t\tvfNote(\"go-twin-panics: outside the property's domain\")\n\t\treturn\n\t}")
        g.append("\tres, trapped := vfWasmCall(vf%sMod(), \"t_%s\", %s)" % (TAG, name, ", ".join(raw)))
        g.append("\tvfObserve(\"trapped\", vfB2U(trapped))")
        if zone:
            # a zone with a known deviation gets its own assertion labels so that the finding cannot mask the rest of the domain
            g.append("\tzone := \"\"\n\tif %s {\n\t\tzone = \"%s\"\n\t}" % zone)
        else:
            g.append("\tconst zone = \"\"")
        g.append("\tvfAssert(!trapped, \"%s/wa-terminates-normally-when-go-does\"+zone" % tag + ")")
        g.append("\tif trapped {\n\t\treturn\n\t}")
        rb = BITS[res]
        if res == "bool":
            g.append("\tvfObserve(\"result\", res[0])")
            g.append("\tvfAssert(res[0] == vfB2U(want), \"TAGX/result-equals-go\"+zone)".replace("TAGX", tag))
        elif is_float(res):
            g.append("\twb := uint64(math.Float%dbits(want))" % rb)
            g.append("\tvfObserve(\"result\", vfSelect(vfNaN('%s', res[0]), 0x7ff8000000000000, res[0]))" % ("f" if rb == 32 else "F"))
            g.append("\tvfAssert(vfB2U(res[0] == wb)|vfB2U(vfNaN('%s', res[0]))&vfB2U(vfNaN('%s', wb)) == 1, \"TAGX/result-equals-go\"+zone)".replace("TAGX", tag) % ((("f" if rb == 32 else "F"),) * 2))
        else:
            mask = (1 << rb) - 1
            g.append("\tgot := res[0] & %#x" % mask)
            g.append("\tvfObserve(\"result\", got)")
            if res in SIGNED:
                g.append("\tvfAssert(got == uint64(uint%d(want)), \"TAGX/result-equals-go\"+zone)".replace("TAGX", tag) % rb)
            else:
                g.append("\tvfAssert(got == uint64(want), \"TAGX/result-equals-go\"+zone)".replace("TAGX", tag))
        g.append("}\n")
        go.append("\n".join(g))
        cases.append(name)
    wa.append("func main {\n}\n")
    go.append("""func init() { vfRegistry["VfH_c01"] = VfH_c01 }

func vfC01Mod() int { return vfWasmLoad("c01") }

func VfN_c01() int { return len(vfC01Cases) }

// VfH_c01: case k is template k of the generated matrix.
func VfH_c01() {
	c := vfC01Cases[vfCase()]
	vfNote("case:" + c.name)
	c.fn()
}
""".replace("c01", tag).replace("C01", TAG).replace('return vfWasmLoad("%s")' % tag,
            'h := vfWasmLoad("%s"); vfWasmCall(h, "_start"); return h' % tag if run_start else 'return vfWasmLoad("%s")' % tag))
    go.append("var vf%sCases = []struct {\n\tname string\n\tfn   func()\n}{\n" % TAG + "".join("\t{\"%s\", vfCase%s_%s},\n" % (n, TAG, n) for n in cases) + "}\n")
    return "\n".join(wa), "\n".join(go), cases
