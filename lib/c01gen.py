"""Generator for the C01 template families: one Wa source with exported functions over scalar
parameters and the same programs written in Go (the twin), plus the harness glue."""

GO = {"u8": "uint8", "u16": "uint16", "i32": "int32", "u32": "uint32", "i64": "int64", "u64": "uint64",
      "f32": "float32", "f64": "float64", "bool": "bool", "int": "int32", "uint": "uint32"}
BITS = {"u8": 8, "u16": 16, "i32": 32, "u32": 32, "i64": 64, "u64": 64, "f32": 32, "f64": 64, "bool": 1, "int": 32, "uint": 32}
INTS = ["u8", "u16", "i32", "u32", "i64", "u64"]
FLOATS = ["f32", "f64"]
SIGNED = {"i32", "i64", "int"}


def is_float(t):
    return t in FLOATS


def templates(tier):
    """yield (name, [(pname, wa_type)], result_type, wa_body, go_body, assumptions(list of Go bool exprs over typed params))"""
    T = []
    opn = {"+": "add", "-": "sub", "*": "mul", "/": "div", "%": "rem", "&": "and", "|": "or", "^": "xor", "&^": "andnot",
           "<<": "shl", ">>": "shr", "==": "eq", "!=": "ne", "<": "lt", "<=": "le", ">": "gt", ">=": "ge"}
    for t in INTS:
        for op in ["+", "-", "*", "/", "%", "&", "|", "^", "&^"]:
            zone = None
            if op == "/" and t in SIGNED:
                zone = ("a == -1<<%d && b == -1" % (BITS[t] - 1), "@minint-div-minus-one")
            T.append(("%s_%s" % (opn[op], t), [("a", t), ("b", t)], t, "return a %s b" % op, "return a %s b" % op, [], zone))
        for op in ["<<", ">>"]:
            for ct in ["u32", "u64"] if tier != "quick" else ["u32"]:
                T.append(("%s_%s_by_%s" % (opn[op], t, ct), [("a", t), ("n", ct)], t, "return a %s n" % op, "return a %s n" % op, [],
                          ("uint64(n) >= %d" % BITS[t], "@shift-count>=width")))
        T.append(("neg_%s" % t, [("a", t)], t, "return -a", "return -a", []))
        T.append(("not_%s" % t, [("a", t)], t, "return ^a", "return ^a", []))
        for op in ["==", "!=", "<", "<=", ">", ">="]:
            T.append(("%s_%s" % (opn[op], t), [("a", t), ("b", t)], "bool", "return a %s b" % op, "return a %s b" % op, []))
    for t in FLOATS:
        for op in ["+", "-", "*", "/"]:
            T.append(("%s_%s" % (opn[op], t), [("a", t), ("b", t)], t, "return a %s b" % op, "return a %s b" % op, []))
        T.append(("neg_%s" % t, [("a", t)], t, "return -a", "return -a", []))
        for op in ["==", "!=", "<", "<=", ">", ">="]:
            T.append(("%s_%s" % (opn[op], t), [("a", t), ("b", t)], "bool", "return a %s b" % op, "return a %s b" % op, []))
    # conversions
    allt = INTS + FLOATS
    for s in allt:
        for d in allt:
            if s == d:
                continue
            assume = []
            if is_float(s) and not is_float(d):
                # Go leaves float -> integer conversion of unrepresentable values implementation-defined
                lo, hi = (-(2 ** (BITS[d] - 1)), 2 ** (BITS[d] - 1)) if d in SIGNED else (0, 2 ** BITS[d])
                assume = ["a == a", "float64(a) > %d.0 - 1.0" % lo if lo == 0 else "float64(a) >= %d.0" % lo, "float64(a) < %d.0" % hi]
            T.append(("conv_%s_to_%s" % (s, d), [("a", s)], d, "return %s(a)" % d, "return %s(a)" % GO[d], assume))
    # boolean connectives and control flow
    T.append(("andor", [("a", "i32"), ("b", "i32"), ("c", "i32")], "bool", "return a < b && b < c || a == c", "return a < b && b < c || a == c", []))
    T.append(("notb", [("a", "i32"), ("b", "i32")], "bool", "return !(a < b)", "return !(a < b)", []))
    T.append(("ifelse", [("a", "i32"), ("b", "i32")], "i32",
              "if a < b {\n\t\treturn b - a\n\t} else if a == b {\n\t\treturn 0\n\t}\n\treturn a - b",
              "if a < b {\n\t\treturn b - a\n\t} else if a == b {\n\t\treturn 0\n\t}\n\treturn a - b", []))
    T.append(("loopsum", [("n", "i32"), ("x", "i32")], "i32",
              "s := i32(0)\n\tfor i := i32(0); i < n; i++ {\n\t\ts += x * i\n\t}\n\treturn s",
              "s := int32(0)\n\tfor i := int32(0); i < n; i++ {\n\t\ts += x * i\n\t}\n\treturn s", ["n <= 4"]))
    T.append(("switch3", [("a", "u32")], "u32",
              "switch a %% 3 {\n\tcase 0:\n\t\treturn a / 3\n\tcase 1:\n\t\treturn a * 3\n\t}\n\treturn a".replace("%%", "%"),
              "switch a %% 3 {\n\tcase 0:\n\t\treturn a / 3\n\tcase 1:\n\t\treturn a * 3\n\t}\n\treturn a".replace("%%", "%"), []))
    T.append(("mixed_widths", [("a", "u8"), ("b", "i64"), ("c", "u16")], "i64", "return i64(a)*b - i64(c)<<3", "return int64(a)*b - int64(c)<<3", []))
    T.append(("u8_wrap", [("a", "u8"), ("b", "u8")], "u32", "return u32(a+b) + u32(a*b)", "return uint32(a+b) + uint32(a*b)", []))
    T.append(("u16_wrap", [("a", "u16"), ("b", "u16")], "u32", "return u32(a-b) + u32(a<<3)", "return uint32(a-b) + uint32(a<<3)", []))
    return T


def gen(tier):
    return gen_from(templates(tier), "c01")


def gen_from(T, tag, wa_imports=(), go_imports=(), wa_extra="", go_extra="", run_start=False):
    """tag: prefix of assertion labels, harness (VfH_<tag>), module name and generated identifiers"""
    TAG = tag.upper()
    wa = ["// generated by /verif/lib/c01gen.py\n" + "".join('import "%s"\n' % i for i in wa_imports) + wa_extra]
    go = ["//go:build verif\n\npackage wh\n\n// generated by /verif/lib/c01gen.py: Go twins of the Wa templates and the per-template harness glue\n\nimport (\n\t\"math\"\n" +
          "".join('\t%s\n' % (i if '"' in i else '"%s"' % i) for i in go_imports) + ")\n\nvar _ = math.Float32bits\n" + go_extra]
    cases = []
    for tpl in T:
        name, params, res, wa_body, go_body, assume = tpl[:6]
        zone = tpl[6] if len(tpl) > 6 else None
        prelude = tpl[7] if len(tpl) > 7 else []  # Go statements that may narrow r_<param> / <param> structurally
        ps = ", ".join("%s: %s" % (p, t) for p, t in params)
        wa.append("#wa:export t_%s\nfunc t_%s(%s) => %s {\n\t%s\n}\n" % (name, name, ps, res, wa_body))
        gps = ", ".join("%s %s" % (p, GO[t]) for p, t in params)
        go.append("func vfTwin%s_%s(%s) %s {\n\t%s\n}\n" % (TAG, name, gps, GO[res], go_body))
        # harness glue
        g = ["func vfCase%s_%s() {" % (TAG, name)]
        raw, typed = [], []
        for p, t in params:
            b = BITS[t]
            if t == "bool":
                g.append("\t%s := vfBool(\"%s\")" % (p, p))
                raw.append("vfB2U(%s)" % p)
            elif is_float(t):
                g.append("\tr_%s := vfU%d(\"%s.%s\")" % (p, b, p, t))
                g.append("\t%s := math.Float%dfrombits(r_%s)" % (p, b, p))
                raw.append("uint64(r_%s)" % p)
            else:
                g.append("\tr_%s := vfU%d(\"%s.%s\")" % (p, b, p, t))
                g.append("\t%s := %s(r_%s)" % (p, GO[t], p))
                # the wasm ABI passes sub-word and 32-bit integers in an i32: zero-extended bits of the value
                raw.append("uint64(r_%s)" % p)
        for st in prelude:
            g.append("\t" + st)
        for a in assume:
            g.append("\tvfAssume(%s)" % a)
        g.append("\tvar want %s" % GO[res])
        g.append("\tpanicked := vfCatch(func() { want = vfTwin%s_%s(%s) })" % (TAG, name, ", ".join(p for p, _ in params)))
        g.append("\tif panicked {\n\t\tvfNote(\"go-twin-panics: outside the property's domain\")\n\t\treturn\n\t}")
        g.append("\tres, trapped := vfWasmCall(vf%sMod(), \"t_%s\", %s)" % (TAG, name, ", ".join(raw)))
        g.append("\tvfObserve(\"trapped\", vfB2U(trapped))")
        if zone:
            # a zone with a known deviation gets its own assertion labels so that the finding cannot mask the rest of the domain
            g.append("\tzone := \"\"\n\tif %s {\n\t\tzone = \"%s\"\n\t}" % zone)
        else:
            g.append("\tconst zone = \"\"")
        g.append("\tvfAssert(!trapped, \"%s/wa-terminates-normally-when-go-does\"+zone" % tag + ")")
        g.append("\tif trapped {\n\t\treturn\n\t}")
        rb = BITS[res]
        if res == "bool":
            g.append("\tvfObserve(\"result\", res[0])")
            g.append("\tvfAssert(res[0] == vfB2U(want), \"TAGX/result-equals-go\"+zone)".replace("TAGX", tag))
        elif is_float(res):
            g.append("\twb := uint64(math.Float%dbits(want))" % rb)
            g.append("\tvfObserve(\"result\", vfSelect(vfNaN('%s', res[0]), 0x7ff8000000000000, res[0]))" % ("f" if rb == 32 else "F"))
            g.append("\tvfAssert(vfB2U(res[0] == wb)|vfB2U(vfNaN('%s', res[0]))&vfB2U(vfNaN('%s', wb)) == 1, \"TAGX/result-equals-go\"+zone)".replace("TAGX", tag) % ((("f" if rb == 32 else "F"),) * 2))
        else:
            mask = (1 << rb) - 1
            g.append("\tgot := res[0] & %#x" % mask)
            g.append("\tvfObserve(\"result\", got)")
            if res in SIGNED:
                g.append("\tvfAssert(got == uint64(uint%d(want)), \"TAGX/result-equals-go\"+zone)".replace("TAGX", tag) % rb)
            else:
                g.append("\tvfAssert(got == uint64(want), \"TAGX/result-equals-go\"+zone)".replace("TAGX", tag))
        g.append("}\n")
        go.append("\n".join(g))
        cases.append(name)
    wa.append("func main {\n}\n")
    go.append("""func init() { vfRegistry["VfH_c01"] = VfH_c01 }

func vfC01Mod() int { return vfWasmLoad("c01") }

func VfN_c01() int { return len(vfC01Cases) }

// VfH_c01: case k is template k of the generated matrix.
func VfH_c01() {
	c := vfC01Cases[vfCase()]
	vfNote("case:" + c.name)
	c.fn()
}
""".replace("c01", tag).replace("C01", TAG).replace('return vfWasmLoad("%s")' % tag,
            'h := vfWasmLoad("%s"); vfWasmCall(h, "_start"); return h' % tag if run_start else 'return vfWasmLoad("%s")' % tag))
    go.append("var vf%sCases = []struct {\n\tname string\n\tfn   func()\n}{\n" % TAG + "".join("\t{\"%s\", vfCase%s_%s},\n" % (n, TAG, n) for n in cases) + "}\n")
    return "\n".join(wa), "\n".join(go), cases
