#!/usr/bin/env python3
"""Run a property's check against a seeded change applied to /repo, then undo it.
usage: seed_run.py <name> [tier]   (reads /verif/seeded/<name>/meta.json)"""
import json, os, subprocess, sys, time
V = os.path.dirname(os.path.dirname(os.path.abspath(__file__)))
name = sys.argv[1]; tier = sys.argv[2] if len(sys.argv) > 2 else "quick"
d = os.path.join(V, "seeded", name)
meta = json.load(open(os.path.join(d, "meta.json")))
assert subprocess.run("git -C /repo status --porcelain", shell=True, capture_output=True, text=True).stdout.strip() == "", "/repo not clean"
subprocess.run("git -C /repo apply %s/patch.diff" % d, shell=True, check=True)
t0 = time.time()
try:
    r = subprocess.run("./check %s --tier %s" % (meta["property"], tier), shell=True, cwd=V, capture_output=True, text=True, timeout=3600)
finally:
    subprocess.run("git -C /repo checkout -- .", shell=True, check=True)
viol = [l for l in r.stdout.splitlines() if l.startswith("VIOLATION")]
inc = [l for l in r.stdout.splitlines() if l.startswith("INCONCLUSIVE")]
print("%s: rc=%d violations=%d inconclusive=%d wall=%.0fs" % (name, r.returncode, len(viol), len(inc), time.time() - t0))
for l in (viol + inc)[:6]:
    print("   ", l[:220])
meta["detected_by"] = {"check": meta["property"], "tier": tier, "exit_code": r.returncode, "violation_lines": viol[:5],
                       "inconclusive_lines": inc[:3], "detected": r.returncode == 1 and bool(viol)}
json.dump(meta, open(os.path.join(d, "meta.json"), "w"), indent=1)
