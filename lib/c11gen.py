"""Generator for C11/C12: Wa template programs that allocate (the C01 aggregate/string templates, the C13 map
scripts, and loop templates for C12), compiled once; the driver derives two binaries from the compiled WAT by
patching runtime.HeapAlloc / runtime.HeapFree: one that counts allocations and frees, one that additionally
overwrites every released block with 0xA5 before handing it to the allocator."""
import os, re
import c01gen, c13gen

BITS = c01gen.BITS


def loop_templates():
    """(name, params, result, wa body): n is the iteration count (concrete in the harness), x arbitrary data"""
    T = []
    P = [("n", "i32"), ("x", "i32")]
    T.append(("loop_slice_garbage", P, "i32", "s := i32(0)\n\tfor i := i32(0); i < n; i++ {\n\t\tb := make([]i32, 4)\n\t\tb[i%4] = x + i\n\t\ts += b[0] + b[1] + b[2] + b[3]\n\t}\n\treturn s"))
    T.append(("loop_append_garbage", P, "i32", "s := i32(0)\n\tfor i := i32(0); i < n; i++ {\n\t\tb := []i32{x}\n\t\tb = append(b, i, i+1, i+2)\n\t\ts += b[3] + i32(len(b))\n\t}\n\treturn s"))
    T.append(("loop_string_garbage", P, "i32", "s := i32(0)\n\tfor i := i32(0); i < n; i++ {\n\t\tt := string([]byte{byte(x), 'a'}) + string([]byte{byte(i)})\n\t\ts += i32(len(t)) + i32(t[0])\n\t}\n\treturn s"))
    T.append(("loop_struct_ptr_garbage", P, "i32", "s := i32(0)\n\tfor i := i32(0); i < n; i++ {\n\t\tp := &vtP{x, i}\n\t\tq := p\n\t\tq.x += 1\n\t\ts += p.Sum()\n\t}\n\treturn s"))
    T.append(("loop_closure_garbage", P, "i32", "s := i32(0)\n\tfor i := i32(0); i < n; i++ {\n\t\tc := x + i\n\t\tf := func(d: i32) => i32 {\n\t\t\tc += d\n\t\t\treturn c\n\t\t}\n\t\ts += f(1)\n\t}\n\treturn s"))
    T.append(("loop_iface_garbage", P, "i32", "s := i32(0)\n\tfor i := i32(0); i < n; i++ {\n\t\tv: vtShape = &vtRect{x, i}\n\t\ts += v.Area()\n\t}\n\treturn s"))
    T.append(("loop_map_garbage", P, "i32", "s := i32(0)\n\tfor i := i32(0); i < n; i++ {\n\t\tm := make(map[i32]i32)\n\t\tm[x] = i\n\t\tm[i] = x\n\t\tdelete(m, x)\n\t\ts += i32(len(m))\n\t}\n\treturn s"))
    T.append(("loop_map_insert_delete_same_key", P, "i32", "m := make(map[i32]i32)\n\tfor i := i32(0); i < n; i++ {\n\t\tm[x] = i\n\t\tdelete(m, x)\n\t}\n\treturn i32(len(m))"))
    T.append(("loop_slice_reassign", P, "i32", "b := []i32{x}\n\tfor i := i32(0); i < n; i++ {\n\t\tb = []i32{b[0] + i, i}\n\t}\n\treturn b[0]"))
    T.append(("loop_make_strings_variable_len", P, "i32", "s := i32(0)\n\tfor i := i32(0); i < n; i++ {\n\t\tk := int(i%3) + 2\n\t\tb := make([]string, k)\n\t\tfor j := 0; j < k; j++ {\n\t\t\tb[j] = string([]byte{byte(x), byte(j)})\n\t\t}\n\t\ts += i32(len(b[k-1]))\n\t}\n\treturn s"))
    T.append(("loop_append_slices_of_slices", P, "i32", "s := i32(0)\n\tfor i := i32(0); i < n; i++ {\n\t\tb: [][]i32\n\t\tb = append(b, []i32{x}, []i32{i}, []i32{x, i})\n\t\ts += i32(len(b)) + b[2][1]\n\t}\n\treturn s"))
    T.append(("loop_call_with_tuple_results", P, "i32", "s := i32(0)\n\tfor i := i32(0); i < n; i++ {\n\t\ts += vtPairUser(x + i)\n\t}\n\treturn s"))
    T.append(("loop_call_with_map_read", P, "i32", "s := i32(0)\n\tfor i := i32(0); i < n; i++ {\n\t\ts += vtMapUser(x, i)\n\t}\n\treturn s"))
    T.append(("loop_call_with_type_assert", P, "i32", "s := i32(0)\n\tfor i := i32(0); i < n; i++ {\n\t\ts += vtAssertUser(x + i)\n\t}\n\treturn s"))
    T.append(("loop_range_over_map", P, "i32", "s := i32(0)\n\tfor i := i32(0); i < n; i++ {\n\t\tm := map[i32]string{x: \"a\", i: \"bc\"}\n\t\tfor k, v := range m {\n\t\t\ts += k + i32(len(v))\n\t\t}\n\t}\n\treturn s"))
    T.append(("loop_overwrite_pointer_with_nil", P, "i32", "s := i32(0)\n\tfor i := i32(0); i < n; i++ {\n\t\ta := &vtNode{v: x}\n\t\ta.next = &vtNode{v: i}\n\t\ts += a.next.v\n\t\ta.next = nil\n\t}\n\treturn s"))
    T.append(("loop_overwrite_string_with_literal", P, "i32", "s := i32(0)\n\tfor i := i32(0); i < n; i++ {\n\t\tp := &vtNamed{}\n\t\tp.name = string([]byte{byte(x), byte(i)})\n\t\ts += i32(len(p.name))\n\t\tp.name = \"lit\"\n\t\ts += i32(len(p.name))\n\t}\n\treturn s"))
    T.append(("loop_overwrite_struct_with_zero", P, "i32", "s := i32(0)\n\tfor i := i32(0); i < n; i++ {\n\t\tp := &vtNamed{name: string([]byte{byte(x)}), items: []i32{i, x}}\n\t\ts += p.items[0]\n\t\t*p = vtNamed{}\n\t\ts += i32(len(p.items))\n\t}\n\treturn s"))
    T.append(("loop_overwrite_slice_element_with_nil", P, "i32", "s := i32(0)\n\tfor i := i32(0); i < n; i++ {\n\t\tb := [][]i32{{x}, {i}}\n\t\ts += b[1][0]\n\t\tb[1] = nil\n\t\tb[0] = nil\n\t}\n\treturn s"))
    T.append(("loop_string_reassign", P, "i32", "t := string([]byte{byte(x)})\n\tfor i := i32(0); i < n; i++ {\n\t\tt = string([]byte{t[0], byte(i)})\n\t}\n\treturn i32(len(t)) + i32(t[0])"))
    return T


def ref_templates():
    """C11: data whose elements own references (slices of slices / strings / pointers, struct fields, closures
    that escape): the owner is overwritten or goes away while a copy made earlier is still in use"""
    T = []
    P = [("x", "i32"), ("y", "i32")]
    T.append(("ref_copy_nested_slices", P, "i32", "a := [][]i32{{x, 1}, {y, 2}}\n\tb := make([][]i32, 2)\n\tcopy(b, a)\n\ta[0] = nil\n\ta[1] = nil\n\ta = nil\n\tc := []i32{7, 8, 9}\n\treturn b[0][0]*5 + b[1][0]*3 + b[1][1] + c[0]"))
    T.append(("ref_copy_strings", P, "i32", "a := []string{string([]byte{byte(x), 'p'}), string([]byte{byte(y), 'q'})}\n\tb := make([]string, 2)\n\tcopy(b, a)\n\ta[0] = \"\"\n\ta[1] = \"\"\n\ta = nil\n\tc := string([]byte{'z', 'z', 'z'})\n\treturn i32(b[0][0])*5 + i32(b[1][0])*3 + i32(len(b[0])+len(b[1])+len(c))"))
    T.append(("ref_copy_pointers", P, "i32", "a := []*vtP{&vtP{x, 1}, &vtP{y, 2}}\n\tb := make([]*vtP, 2)\n\tcopy(b, a)\n\ta[0] = nil\n\ta[1] = nil\n\ta = nil\n\tc := &vtP{5, 6}\n\treturn b[0].x*5 + b[1].x*3 + b[1].y + c.x"))
    T.append(("ref_append_spread", P, "i32", "a := [][]i32{{x}, {y}}\n\tb := append([][]i32{}, a...)\n\ta[0] = nil\n\ta[1] = nil\n\ta = nil\n\tc := []i32{4}\n\treturn b[0][0]*5 + b[1][0]*3 + c[0]"))
    T.append(("ref_struct_field_slice", P, "i32", "type box :struct {\n\t\tv: []i32\n\t}\n\tp := box{[]i32{x, y}}\n\tq := p\n\tp = box{}\n\tc := []i32{1, 2}\n\treturn q.v[0]*5 + q.v[1]*3 + c[1]"))
    T.append(("ref_slice_reslice_outlives", P, "i32", "a := []i32{x, y, 3, 4}\n\tb := a[1:3]\n\ta = nil\n\tc := []i32{9, 9, 9, 9}\n\treturn b[0]*5 + b[1]*3 + c[0]"))
    T.append(("ref_closure_escapes", P, "i32", "mk := func(s: i32) => func() => i32 {\n\t\tc := s\n\t\treturn func() => i32 {\n\t\t\tc++\n\t\t\treturn c\n\t\t}\n\t}\n\tf := mk(x)\n\tg := mk(y)\n\tf()\n\treturn f()*5 + g()*3 + f()"))
    T.append(("ref_iface_holds_pointer", P, "i32", "s: vtShape = &vtRect{x, y}\n\tt := s\n\ts = &vtSq{3}\n\tc := &vtRect{1, 1}\n\treturn t.Area()*3 + s.Area() + c.w"))
    T.append(("ref_range_strings", P, "i32", "a := []string{string([]byte{byte(x)}), string([]byte{byte(y), 'b'})}\n\th := i32(0)\n\tfor i, s := range a {\n\t\ta[i] = \"\"\n\t\tt := string([]byte{'k', 'k'})\n\t\th = h*31 + i32(s[0]) + i32(len(s)) + i32(len(t))\n\t}\n\treturn h"))
    T.append(("ref_map_value_slices", P, "i32", "m := make(map[i32][]i32)\n\tm[1] = []i32{x}\n\tm[2] = []i32{y}\n\tv := m[1]\n\tdelete(m, 1)\n\tm[3] = []i32{8}\n\treturn v[0]*5 + m[2][0]*3 + m[3][0]"))
    return T


C12_DECLS = """
type vtNode :struct {
	next: *vtNode
	v:    i32
}

type vtNamed :struct {
	name:  string
	items: []i32
}

func vtPair(v: i32) => (string, []i32) {
	return string([]byte{byte(v), 'n'}), []i32{v, v + 1}
}

func vtPairUser(v: i32) => i32 {
	name, k := vtPair(v)
	return i32(len(name)) + k[1]
}

func vtMapUser(x, i: i32) => i32 {
	m := map[i32]string{x: "one", i: "three"}
	v, ok := m[x]
	if ok {
		return i32(len(v))
	}
	return 0
}

func vtAssertUser(v: i32) => i32 {
	s: vtShape = &vtSq{v}
	q, ok := s.(*vtSq)
	if ok {
		return q.s
	}
	return 0
}
"""


def gen(tier):
    # templates with a restricted domain (division, recursion depth) do not allocate and are left out
    A = [(t[0], t[1], t[2], t[3]) for t in c01gen.aggregate_templates() if not t[5]] + ref_templates()
    K = c13gen.kinds()
    M = []
    for kn in (["i32", "str"] if tier == "quick" else ["i32", "str", "i64", "struct", "iface"]):
        params, wk, gk, wke, gke, assume = K[kn]
        for sc in c13gen.scripts("quick")[:: (2 if tier == "quick" else 1)]:
            M.append(("map_%s_%s" % (kn, "_".join(sc)), params, "u32", c13gen.body("wa", wk, wke, sc)))
    L = loop_templates()
    only = os.environ.get("VERIF_ONLY")
    if only:
        A, M, L = [[t for t in X if any(o in t[0] for o in only.split(","))] for X in (A, M, L)]
    wa = ["// generated by /verif/lib/c11gen.py\n" + c01gen.WA_DECLS + c13gen.WA_DECLS + C12_DECLS]
    for name, params, res, body in A + M + L:
        ps = ", ".join("%s: %s" % (p, t) for p, t in params)
        wa.append("#wa:export t_%s\nfunc t_%s(%s) => %s {\n\t%s\n}\n" % (name, name, ps, res, body))
    wa.append("func main {\n}\n")
    go = ["//go:build verif\n\npackage wh\n\n// generated by /verif/lib/c11gen.py\n"]

    def argdecl(params, fixed=None):
        g, raw = [], []
        for p, t in params:
            b = BITS[t]
            if fixed and p in fixed:
                raw.append(None)
                continue
            if t == "bool":
                g.append("\t%s := vfB2U(vfBool(\"%s\"))" % (p, p))
            else:
                g.append("\t%s := uint64(vfU%d(\"%s.%s\"))" % (p, b, p, t))
            raw.append(p)
        return g, raw
    c11 = []
    for name, params, res, body in A + M:
        g, raw = argdecl(params)
        go.append("func vfCaseC11_%s() {\n%s\n\tvfC11Run(\"t_%s\", %s)\n}\n" % (name, "\n".join(g), name, ", ".join(raw)))
        c11.append(name)
    c12 = []
    for name, params, res, body in L:
        g, raw = argdecl(params, fixed={"n"})
        go.append("func vfCaseC12_%s() {\n%s\n\tvfC12Run(\"t_%s\", x)\n}\n" % (name, "\n".join(g), name))
        c12.append(name)
    go.append("var vfC11Cases = []struct {\n\tname string\n\tfn   func()\n}{\n" + "".join("\t{\"%s\", vfCaseC11_%s},\n" % (n, n) for n in c11) + "}\n")
    go.append("var vfC12Cases = []struct {\n\tname string\n\tfn   func()\n}{\n" + "".join("\t{\"%s\", vfCaseC12_%s},\n" % (n, n) for n in c12) + "}\n")
    return "\n".join(wa), "\n".join(go), c11, c12


ALLOC_RE = re.compile(r'(\(func \$runtime\.HeapAlloc \(export "runtime\.HeapAlloc"\).*?)(\n\s*local\.get \$ptr\n\))', re.S)
FREE_RE = re.compile(r'\(func \$runtime\.HeapFree \(export "runtime\.HeapFree"\) \(param \$ptr i32\)\s*\n\s*local\.get \$ptr\s*\n\s*call \$runtime\.free\s*\n\)')


def patch_wat(text, poison):
    """Returns the compiled WAT with counting (and optionally poisoning) HeapAlloc/HeapFree; fails closed."""
    count_alloc = "\n\tlocal.get $ptr\n\tif\n\t\tglobal.get $__vf_allocs\n\t\ti32.const 1\n\t\ti32.add\n\t\tglobal.set $__vf_allocs\n\tend"
    text, n1 = ALLOC_RE.subn(lambda m: m.group(1) + count_alloc + m.group(2), text, count=1)
    fill = "\t\tlocal.get $ptr\n\t\ti32.const 165\n\t\tlocal.get $ptr\n\t\ti32.const 8\n\t\ti32.sub\n\t\ti32.load\n\t\tmemory.fill\n" if poison else ""
    free = ('(func $runtime.HeapFree (export "runtime.HeapFree") (param $ptr i32)\n\tlocal.get $ptr\n\tif\n\t\tglobal.get $__vf_frees\n\t\ti32.const 1\n'
            '\t\ti32.add\n\t\tglobal.set $__vf_frees\n' + fill + '\tend\n\tlocal.get $ptr\n\tcall $runtime.free\n)')
    text, n2 = FREE_RE.subn(lambda m: free, text, count=1)
    if n1 != 1 or n2 != 1:
        raise ValueError("runtime.HeapAlloc / runtime.HeapFree do not have the expected shape in the compiled WAT (%d, %d)" % (n1, n2))
    glob = ('(global $__vf_allocs (mut i32) (i32.const 0))\n(global $__vf_frees (mut i32) (i32.const 0))\n'
            '(export "vf_allocs" (global $__vf_allocs))\n(export "vf_frees" (global $__vf_frees))\n(export "vf_heap_ptr" (global $__heap_ptr))\n')
    i = text.index("(func $runtime.HeapAlloc")
    return text[:i] + glob + text[i:]
