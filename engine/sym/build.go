package sym

import (
	"fmt"
	"math"
	"math/big"
	"math/bits"
)

// ---------- boolean ----------

func (c *Ctx) Not(a *Term) *Term {
	if a.IsConst() {
		return c.Bool(a.Val == 0)
	}
	if a.Op == ONot {
		return a.Args[0]
	}
	return c.mk(&Term{Op: ONot, Sort: BoolSort, Args: []*Term{a}})
}

func (c *Ctx) And(a, b *Term) *Term {
	if a.IsConst() {
		if a.Val == 0 {
			return c.False
		}
		return b
	}
	if b.IsConst() {
		if b.Val == 0 {
			return c.False
		}
		return a
	}
	if a == b {
		return a
	}
	if c.Not(a) == b {
		return c.False
	}
	return c.mk(&Term{Op: OAnd, Sort: BoolSort, Args: []*Term{a, b}})
}

func (c *Ctx) Or(a, b *Term) *Term {
	if a.IsConst() {
		if a.Val == 1 {
			return c.True
		}
		return b
	}
	if b.IsConst() {
		if b.Val == 1 {
			return c.True
		}
		return a
	}
	if a == b {
		return a
	}
	if c.Not(a) == b {
		return c.True
	}
	return c.mk(&Term{Op: OOr, Sort: BoolSort, Args: []*Term{a, b}})
}

func (c *Ctx) Implies(a, b *Term) *Term { return c.Or(c.Not(a), b) }

func (c *Ctx) Ite(cond, a, b *Term) *Term {
	if a.Sort != b.Sort {
		panic(fmt.Sprintf("sym.Ite: sort mismatch %v %v", a.Sort, b.Sort))
	}
	if cond.IsConst() {
		if cond.Val == 1 {
			return a
		}
		return b
	}
	if a == b {
		return a
	}
	if a.Sort.K == KBool {
		if a.IsTrue() && b.IsFalse() {
			return cond
		}
		if a.IsFalse() && b.IsTrue() {
			return c.Not(cond)
		}
		if a.IsTrue() {
			return c.Or(cond, b)
		}
		if a.IsFalse() {
			return c.And(c.Not(cond), b)
		}
		if b.IsTrue() {
			return c.Or(c.Not(cond), a)
		}
		if b.IsFalse() {
			return c.And(cond, a)
		}
	}
	if cond.Op == ONot {
		return c.Ite(cond.Args[0], b, a)
	}
	// ite(c, zext(x), zext(y)) = zext(ite(c, x, y)) (constants with clear high
	// bits count as zero-extended): keeps multiplexers over a register file at
	// the register's own width whatever width the reader widened the cells to.
	if a.Sort.K == KBV && a.Sort.W <= 64 {
		if n := zextPair(a, b); n > 0 {
			iw := a.Sort.W - n
			return c.Zext(c.Ite(cond, c.lowPart(a, iw), c.lowPart(b, iw)), n)
		}
	}
	// ite(c, x, ite(c, y, z)) = ite(c, x, z)
	if b.Op == OIte && b.Args[0] == cond {
		return c.Ite(cond, a, b.Args[2])
	}
	if a.Op == OIte && a.Args[0] == cond {
		return c.Ite(cond, a.Args[1], b)
	}
	return c.mk(&Term{Op: OIte, Sort: a.Sort, Args: []*Term{cond, a, b}})
}

// Eq is structural SMT equality (for FP: NaN = NaN, +0 != -0). Use FEq for IEEE.
// zextPair reports the common extension amount n when both terms are
// zero-extensions by n bits (or one is and the other is a constant that fits).
func zextPair(a, b *Term) int {
	n := 0
	switch {
	case a.Op == OZext && b.Op == OZext && a.P1 == b.P1:
		n = a.P1
	case a.Op == OZext && b.IsConst() && b.Hi == 0 && b.Val>>uint(a.Sort.W-a.P1) == 0:
		n = a.P1
	case b.Op == OZext && a.IsConst() && a.Hi == 0 && a.Val>>uint(b.Sort.W-b.P1) == 0:
		n = b.P1
	}
	return n
}

func (c *Ctx) lowPart(a *Term, w int) *Term {
	if a.Op == OZext {
		return a.Args[0]
	}
	return c.Const(w, a.Val)
}

func (c *Ctx) Eq(a, b *Term) *Term {
	if a.Sort != b.Sort {
		panic(fmt.Sprintf("sym.Eq: sort mismatch %v %v (%v, %v)", a.Sort, b.Sort, a, b))
	}
	if a == b {
		return c.True
	}
	if a.Op == OZext && b.Op == OZext && a.P1 == b.P1 {
		return c.Eq(a.Args[0], b.Args[0])
	}
	if a.Op == OSext && b.Op == OSext && a.P1 == b.P1 {
		return c.Eq(a.Args[0], b.Args[0])
	}
	if a.IsConst() && b.IsConst() {
		if a.Sort.K == KFP {
			if isNaNBits(a.Sort.W, a.Val) && isNaNBits(b.Sort.W, b.Val) {
				return c.True
			}
		}
		return c.Bool(a.Val == b.Val && a.Hi == b.Hi)
	}
	if a.IsConst() {
		a, b = b, a
	}
	if a.Sort.K == KBool {
		if b.IsConst() {
			if b.Val == 1 {
				return a
			}
			return c.Not(a)
		}
	}
	if a.Sort.K == KBV && b.IsConst() {
		if a.Sort.W <= 64 {
			kz, ko := a.Known()
			if kz&b.Val != 0 || ko&^b.Val != 0 {
				return c.False
			}
		}
		switch a.Op {
		case OIte:
			x, y := a.Args[1], a.Args[2]
			if x.IsConst() || y.IsConst() {
				return c.Ite(a.Args[0], c.Eq(x, b), c.Eq(y, b))
			}
		case OZext:
			// zext(x) == k  <=> x == low(k) && high(k)==0
			xw := a.Args[0].Sort.W
			if xw <= 64 && a.Sort.W <= 64 {
				if b.Val>>uint(xw) != 0 {
					return c.False
				}
				return c.Eq(a.Args[0], c.Const(xw, b.Val))
			}
		case OBXor:
			if a.Args[1].IsConst() && a.Sort.W <= 64 {
				return c.Eq(a.Args[0], c.Const(a.Sort.W, b.Val^a.Args[1].Val))
			}
		case OAdd:
			if a.Args[1].IsConst() && a.Sort.W <= 64 {
				return c.Eq(a.Args[0], c.Const(a.Sort.W, b.Val-a.Args[1].Val))
			}
		}
	}
	if a.ID > b.ID && !b.IsConst() {
		a, b = b, a
	}
	return c.mk(&Term{Op: OEq, Sort: BoolSort, Args: []*Term{a, b}})
}

func (c *Ctx) Ne(a, b *Term) *Term { return c.Not(c.Eq(a, b)) }

// ---------- bit-vectors ----------

func sext64(v uint64, w int) int64 {
	if w >= 64 {
		return int64(v)
	}
	if v&(1<<uint(w-1)) != 0 {
		return int64(v | ^mask(w))
	}
	return int64(v)
}

func bigSigned(t *Term) *big.Int {
	b := t.Big()
	w := t.Sort.W
	if b.Bit(w-1) == 1 {
		b.Sub(b, new(big.Int).Lsh(big.NewInt(1), uint(w)))
	}
	return b
}

func (c *Ctx) foldBig(op Op, a, b *Term) *Term {
	w := a.Sort.W
	x, y := a.Big(), b.Big()
	r := new(big.Int)
	mod := new(big.Int).Lsh(big.NewInt(1), uint(w))
	switch op {
	case OAdd:
		r.Add(x, y)
	case OSub:
		r.Sub(x, y)
	case OMul:
		r.Mul(x, y)
	case OBAnd:
		r.And(x, y)
	case OBOr:
		r.Or(x, y)
	case OBXor:
		r.Xor(x, y)
	case OUDiv:
		if y.Sign() == 0 {
			r.Sub(mod, big.NewInt(1))
		} else {
			r.Div(x, y)
		}
	case OURem:
		if y.Sign() == 0 {
			r.Set(x)
		} else {
			r.Mod(x, y)
		}
	case OSDiv:
		sx, sy := bigSigned(a), bigSigned(b)
		if sy.Sign() == 0 {
			if sx.Sign() < 0 {
				r.SetInt64(1)
			} else {
				r.SetInt64(-1)
			}
		} else {
			r.Quo(sx, sy)
		}
	case OSRem:
		sx, sy := bigSigned(a), bigSigned(b)
		if sy.Sign() == 0 {
			r.Set(sx)
		} else {
			r.Rem(sx, sy)
		}
	case OShl:
		if y.Cmp(big.NewInt(int64(w))) >= 0 {
			r.SetInt64(0)
		} else {
			r.Lsh(x, uint(y.Uint64()))
		}
	case OLShr:
		if y.Cmp(big.NewInt(int64(w))) >= 0 {
			r.SetInt64(0)
		} else {
			r.Rsh(x, uint(y.Uint64()))
		}
	case OAShr:
		sx := bigSigned(a)
		sh := uint(w)
		if y.Cmp(big.NewInt(int64(w))) < 0 {
			sh = uint(y.Uint64())
		}
		r.Rsh(sx, sh)
	default:
		panic("foldBig: op")
	}
	return c.ConstBig(w, r)
}

func (c *Ctx) foldCmpBig(op Op, a, b *Term) *Term {
	switch op {
	case OUlt:
		return c.Bool(a.Big().Cmp(b.Big()) < 0)
	case OUle:
		return c.Bool(a.Big().Cmp(b.Big()) <= 0)
	case OSlt:
		return c.Bool(bigSigned(a).Cmp(bigSigned(b)) < 0)
	case OSle:
		return c.Bool(bigSigned(a).Cmp(bigSigned(b)) <= 0)
	}
	panic("foldCmpBig")
}

func fold64(op Op, w int, x, y uint64) uint64 {
	m := mask(w)
	switch op {
	case OAdd:
		return (x + y) & m
	case OSub:
		return (x - y) & m
	case OMul:
		return (x * y) & m
	case OBAnd:
		return x & y
	case OBOr:
		return x | y
	case OBXor:
		return x ^ y
	case OUDiv:
		if y == 0 {
			return m
		}
		return x / y
	case OURem:
		if y == 0 {
			return x
		}
		return x % y
	case OSDiv:
		sx, sy := sext64(x, w), sext64(y, w)
		if sy == 0 {
			if sx < 0 {
				return 1
			}
			return m
		}
		if sy == -1 {
			return uint64(-sx) & m
		}
		return uint64(sx/sy) & m
	case OSRem:
		sx, sy := sext64(x, w), sext64(y, w)
		if sy == 0 {
			return x
		}
		if sy == -1 {
			return 0
		}
		return uint64(sx%sy) & m
	case OShl:
		if y >= uint64(w) {
			return 0
		}
		return (x << y) & m
	case OLShr:
		if y >= uint64(w) {
			return 0
		}
		return x >> y
	case OAShr:
		sx := sext64(x, w)
		if y >= uint64(w) {
			y = uint64(w - 1)
			if w > 64 {
				y = 63
			}
		}
		if y > 63 {
			y = 63
		}
		return uint64(sx>>y) & m
	}
	panic("fold64")
}

func (c *Ctx) bin(op Op, a, b *Term) *Term {
	if a.Sort != b.Sort || a.Sort.K != KBV {
		panic(fmt.Sprintf("sym.bin %s: sorts %v %v", opNames[op], a.Sort, b.Sort))
	}
	w := a.Sort.W
	if a.IsConst() && b.IsConst() {
		if w > 64 {
			return c.foldBig(op, a, b)
		}
		return c.Const(w, fold64(op, w, a.Val, b.Val))
	}
	// commutative: constant to the right
	switch op {
	case OAdd, OMul, OBAnd, OBOr, OBXor:
		if a.IsConst() {
			a, b = b, a
		}
	}
	isZero := func(t *Term) bool { return t.IsConst() && t.Val == 0 && t.Hi == 0 }
	isOnes := func(t *Term) bool {
		if !t.IsConst() {
			return false
		}
		if w <= 64 {
			return t.Val == mask(w)
		}
		return t.Val == ^uint64(0) && t.Hi == mask(w-64)
	}
	switch op {
	case OAdd:
		if isZero(b) {
			return a
		}
		if isZero(a) {
			return b
		}
		// (x + k1) + k2
		if b.IsConst() && a.Op == OAdd && a.Args[1].IsConst() {
			return c.bin(OAdd, a.Args[0], c.bin(OAdd, a.Args[1], b))
		}
	case OSub:
		if isZero(b) {
			return a
		}
		if a == b {
			return c.Const128(w, 0, 0)
		}
		if b.IsConst() {
			return c.bin(OAdd, a, c.Neg(b))
		}
	case OMul:
		if isZero(b) {
			return b
		}
		if b.IsConst() && b.Val == 1 && b.Hi == 0 {
			return a
		}
		if b.IsConst() && w <= 64 && b.Val&(b.Val-1) == 0 {
			return c.bin(OShl, a, c.Const(w, uint64(bits.TrailingZeros64(b.Val))))
		}
	case OBAnd:
		if isZero(b) {
			return b
		}
		if isOnes(b) {
			return a
		}
		if a == b {
			return a
		}
		if w <= 64 && b.IsConst() {
			kz, ko := a.Known()
			// every bit selected by the mask is known
			if (kz|ko)&b.Val == b.Val {
				return c.Const(w, ko&b.Val)
			}
			// mask keeps only bits that may be one anyway
			if ^kz&mask(w)&^b.Val == 0 {
				return a
			}
			if a.Op == OBAnd && a.Args[1].IsConst() {
				return c.bin(OBAnd, a.Args[0], c.Const(w, a.Args[1].Val&b.Val))
			}
			// low-bit mask of a zext/concat: push down
			if b.Val&(b.Val+1) == 0 { // 2^k-1
				k := bits.Len64(b.Val)
				if a.Op == OZext && a.Args[0].Sort.W <= k {
					return a
				}
				// x & (2^k-1) = zext(x[k-1:0]) for the machine word sizes: truncate-then-widen
				// idioms (uint64(uint32(x)), x & 0xffffffff) get one canonical form
				if (k == 8 || k == 16 || k == 32) && k < w {
					return c.Zext(c.Extract(a, k-1, 0), w-k)
				}
			}
		}
	case OBOr:
		if isZero(b) {
			return a
		}
		if isOnes(b) {
			return b
		}
		if a == b {
			return a
		}
	case OBXor:
		if isZero(b) {
			return a
		}
		if a == b {
			return c.Const128(w, 0, 0)
		}
	case OShl, OLShr, OAShr:
		if isZero(b) {
			return a
		}
		if isZero(a) {
			return a
		}
		if b.IsConst() && (b.Hi != 0 || b.Val >= uint64(w)) {
			if op != OAShr {
				return c.Const128(w, 0, 0)
			}
		}
		if b.IsConst() && op == OLShr && w <= 64 {
			// lshr(x,k) = zext(extract[w-1:k](x))
			k := int(b.Val)
			return c.Zext(c.Extract(a, w-1, k), k)
		}
		if b.IsConst() && op == OShl && w <= 64 {
			k := int(b.Val)
			return c.Concat(c.Extract(a, w-1-k, 0), c.Const(k, 0))
		}
	case OUDiv:
		if b.IsConst() && b.Val == 1 && b.Hi == 0 {
			return a
		}
		if b.IsConst() && w <= 64 && b.Val != 0 && b.Val&(b.Val-1) == 0 {
			return c.bin(OLShr, a, c.Const(w, uint64(bits.TrailingZeros64(b.Val))))
		}
		// (zext a) / (zext b) = b == 0 ? all-ones : zext(a / b)
		if w <= 64 {
			if n := zextPair(a, b); n > 0 {
				la, lb := c.lowPart(a, w-n), c.lowPart(b, w-n)
				return c.Ite(c.Eq(lb, c.Const(w-n, 0)), c.Const(w, mask(w)), c.Zext(c.bin(OUDiv, la, lb), n))
			}
		}
	case OURem:
		if b.IsConst() && w <= 64 && b.Val != 0 && b.Val&(b.Val-1) == 0 {
			return c.bin(OBAnd, a, c.Const(w, b.Val-1))
		}
		// (zext a) % (zext b) = zext(a % b), also for b = 0 (x % 0 = x at every width)
		if w <= 64 {
			if n := zextPair(a, b); n > 0 {
				return c.Zext(c.bin(OURem, c.lowPart(a, w-n), c.lowPart(b, w-n)), n)
			}
		}
	case OSDiv, OSRem:
		// both operands known non-negative: same as the unsigned operation
		if w <= 64 {
			az, _ := a.Known()
			bz, _ := b.Known()
			sb := uint64(1) << uint(w-1)
			if az&sb != 0 && bz&sb != 0 {
				if op == OSDiv {
					return c.bin(OUDiv, a, b)
				}
				return c.bin(OURem, a, b)
			}
		}
	}
	return c.mk(&Term{Op: op, Sort: a.Sort, Args: []*Term{a, b}})
}

func (c *Ctx) Add(a, b *Term) *Term  { return c.bin(OAdd, a, b) }
func (c *Ctx) Sub(a, b *Term) *Term  { return c.bin(OSub, a, b) }
func (c *Ctx) Mul(a, b *Term) *Term  { return c.bin(OMul, a, b) }
func (c *Ctx) UDiv(a, b *Term) *Term { return c.bin(OUDiv, a, b) }
func (c *Ctx) SDiv(a, b *Term) *Term { return c.bin(OSDiv, a, b) }
func (c *Ctx) URem(a, b *Term) *Term { return c.bin(OURem, a, b) }
func (c *Ctx) SRem(a, b *Term) *Term { return c.bin(OSRem, a, b) }
func (c *Ctx) BAnd(a, b *Term) *Term { return c.bin(OBAnd, a, b) }
func (c *Ctx) BOr(a, b *Term) *Term  { return c.bin(OBOr, a, b) }
func (c *Ctx) BXor(a, b *Term) *Term { return c.bin(OBXor, a, b) }
func (c *Ctx) Shl(a, b *Term) *Term  { return c.bin(OShl, a, b) }
func (c *Ctx) LShr(a, b *Term) *Term { return c.bin(OLShr, a, b) }
func (c *Ctx) AShr(a, b *Term) *Term { return c.bin(OAShr, a, b) }

func (c *Ctx) BNot(a *Term) *Term {
	w := a.Sort.W
	if a.IsConst() {
		if w > 64 {
			return c.Const128(w, ^a.Val, ^a.Hi)
		}
		return c.Const(w, ^a.Val)
	}
	if a.Op == OBNot {
		return a.Args[0]
	}
	return c.mk(&Term{Op: OBNot, Sort: a.Sort, Args: []*Term{a}})
}

func (c *Ctx) Neg(a *Term) *Term {
	w := a.Sort.W
	if a.IsConst() {
		if w > 64 {
			return c.ConstBig(w, new(big.Int).Neg(a.Big()))
		}
		return c.Const(w, -a.Val)
	}
	if a.Op == ONeg {
		return a.Args[0]
	}
	return c.mk(&Term{Op: ONeg, Sort: a.Sort, Args: []*Term{a}})
}

func (c *Ctx) cmp(op Op, a, b *Term) *Term {
	if a.Sort != b.Sort || a.Sort.K != KBV {
		panic(fmt.Sprintf("sym.cmp: sorts %v %v", a.Sort, b.Sort))
	}
	w := a.Sort.W
	if a.IsConst() && b.IsConst() {
		if w > 64 {
			return c.foldCmpBig(op, a, b)
		}
		switch op {
		case OUlt:
			return c.Bool(a.Val < b.Val)
		case OUle:
			return c.Bool(a.Val <= b.Val)
		case OSlt:
			return c.Bool(sext64(a.Val, w) < sext64(b.Val, w))
		case OSle:
			return c.Bool(sext64(a.Val, w) <= sext64(b.Val, w))
		}
	}
	if a == b {
		return c.Bool(op == OUle || op == OSle)
	}
	if a.Op == OZext && b.Op == OZext && a.P1 == b.P1 {
		if op == OUlt || op == OUle {
			return c.cmp(op, a.Args[0], b.Args[0])
		}
		if op == OSlt {
			return c.cmp(OUlt, a.Args[0], b.Args[0])
		}
		return c.cmp(OUle, a.Args[0], b.Args[0])
	}
	if a.Op == OSext && b.Op == OSext && a.P1 == b.P1 {
		return c.cmp(op, a.Args[0], b.Args[0])
	}
	if w <= 64 {
		// interval reasoning from known bits
		alo, ahi := a.URange()
		blo, bhi := b.URange()
		switch op {
		case OUlt:
			if ahi < blo {
				return c.True
			}
			if alo >= bhi {
				return c.False
			}
		case OUle:
			if ahi <= blo {
				return c.True
			}
			if alo > bhi {
				return c.False
			}
		case OSlt, OSle:
			// only if both signs known
			sb := uint64(1) << uint(w-1)
			akz, ako := a.Known()
			bkz, bko := b.Known()
			if (akz|ako)&sb != 0 && (bkz|bko)&sb != 0 {
				as, bs := ako&sb != 0, bko&sb != 0
				if as != bs {
					return c.Bool(as) // a negative, b non-negative => a<b
				}
				// same sign: unsigned order
				if op == OSlt {
					return c.cmp(OUlt, a, b)
				}
				return c.cmp(OUle, a, b)
			}
		}
	}
	return c.mk(&Term{Op: op, Sort: BoolSort, Args: []*Term{a, b}})
}

func (c *Ctx) Ult(a, b *Term) *Term { return c.cmp(OUlt, a, b) }
func (c *Ctx) Ule(a, b *Term) *Term { return c.cmp(OUle, a, b) }
func (c *Ctx) Slt(a, b *Term) *Term { return c.cmp(OSlt, a, b) }
func (c *Ctx) Sle(a, b *Term) *Term { return c.cmp(OSle, a, b) }

func (c *Ctx) Concat(hi, lo *Term) *Term {
	w := hi.Sort.W + lo.Sort.W
	if hi.IsConst() && lo.IsConst() {
		if w <= 64 {
			return c.Const(w, hi.Val<<uint(lo.Sort.W)|lo.Val)
		}
		b := hi.Big()
		b.Lsh(b, uint(lo.Sort.W))
		b.Or(b, lo.Big())
		return c.ConstBig(w, b)
	}
	if hi.IsConst() && hi.Val == 0 && hi.Hi == 0 {
		return c.Zext(lo, hi.Sort.W)
	}
	// concat(extract[h:m+1](x), extract[m:l](x)) = extract[h:l](x)
	if hi.Op == OExtract && lo.Op == OExtract && hi.Args[0] == lo.Args[0] && hi.P2 == lo.P1+1 {
		return c.Extract(hi.Args[0], hi.P1, lo.P2)
	}
	return c.mk(&Term{Op: OConcat, Sort: BV(w), Args: []*Term{hi, lo}})
}

func (c *Ctx) Extract(a *Term, hi, lo int) *Term {
	w := a.Sort.W
	if hi >= w || lo < 0 || hi < lo {
		panic(fmt.Sprintf("sym.Extract[%d:%d] of width %d", hi, lo, w))
	}
	if lo == 0 && hi == w-1 {
		return a
	}
	nw := hi - lo + 1
	if a.IsConst() {
		if w <= 64 {
			return c.Const(nw, a.Val>>uint(lo))
		}
		b := a.Big()
		b.Rsh(b, uint(lo))
		return c.ConstBig(nw, b)
	}
	if w <= 64 {
		kz, ko := a.Known()
		sel := mask(nw) << uint(lo)
		if (kz|ko)&sel == sel {
			return c.Const(nw, (ko&sel)>>uint(lo))
		}
	}
	switch a.Op {
	case OExtract:
		return c.Extract(a.Args[0], a.P2+hi, a.P2+lo)
	case OConcat:
		lw := a.Args[1].Sort.W
		if hi < lw {
			return c.Extract(a.Args[1], hi, lo)
		}
		if lo >= lw {
			return c.Extract(a.Args[0], hi-lw, lo-lw)
		}
		return c.Concat(c.Extract(a.Args[0], hi-lw, 0), c.Extract(a.Args[1], lw-1, lo))
	case OZext:
		xw := a.Args[0].Sort.W
		if hi < xw {
			return c.Extract(a.Args[0], hi, lo)
		}
		if lo >= xw {
			return c.Const128(nw, 0, 0)
		}
		return c.Zext(c.Extract(a.Args[0], xw-1, lo), hi-xw+1)
	case OSext:
		xw := a.Args[0].Sort.W
		if hi < xw {
			return c.Extract(a.Args[0], hi, lo)
		}
		if lo < xw {
			return c.Sext(c.Extract(a.Args[0], xw-1, lo), hi-xw+1)
		}
	case OBAnd, OBOr, OBXor:
		// push extraction through bitwise ops (bit-wise: always sound)
		if a.Args[1].IsConst() || lo == 0 {
			return c.bin(a.Op, c.Extract(a.Args[0], hi, lo), c.Extract(a.Args[1], hi, lo))
		}
	case OAdd, OSub, OMul:
		if lo == 0 {
			// low bits of an arithmetic result depend only on low bits of operands
			return c.bin(a.Op, c.Extract(a.Args[0], hi, 0), c.Extract(a.Args[1], hi, 0))
		}
	case OIte:
		if a.Args[1].IsConst() || a.Args[2].IsConst() || (lo == 0 && (a.Args[1].Op == OZext || a.Args[2].Op == OZext)) {
			return c.Ite(a.Args[0], c.Extract(a.Args[1], hi, lo), c.Extract(a.Args[2], hi, lo))
		}
	}
	return c.mk(&Term{Op: OExtract, Sort: BV(nw), Args: []*Term{a}, P1: hi, P2: lo})
}

func (c *Ctx) Zext(a *Term, n int) *Term {
	if n == 0 {
		return a
	}
	w := a.Sort.W + n
	if a.IsConst() {
		return c.Const128(w, a.Val, a.Hi)
	}
	if a.Op == OZext {
		return c.Zext(a.Args[0], n+a.P1)
	}
	return c.mk(&Term{Op: OZext, Sort: BV(w), Args: []*Term{a}, P1: n})
}

func (c *Ctx) Sext(a *Term, n int) *Term {
	if n == 0 {
		return a
	}
	w := a.Sort.W + n
	if a.IsConst() {
		return c.ConstBig(w, bigSigned(a))
	}
	if a.Op == OSext {
		return c.Sext(a.Args[0], n+a.P1)
	}
	if a.Op == OZext {
		return c.Zext(a.Args[0], n+a.P1)
	}
	if a.Sort.W <= 64 {
		kz, _ := a.Known()
		if kz&(1<<uint(a.Sort.W-1)) != 0 {
			return c.Zext(a, n)
		}
	}
	return c.mk(&Term{Op: OSext, Sort: BV(w), Args: []*Term{a}, P1: n})
}

// Resize converts a BV to width w, truncating or extending by signedness.
func (c *Ctx) Resize(a *Term, w int, signed bool) *Term {
	aw := a.Sort.W
	switch {
	case w == aw:
		return a
	case w < aw:
		return c.Extract(a, w-1, 0)
	case signed:
		return c.Sext(a, w-aw)
	default:
		return c.Zext(a, w-aw)
	}
}

// BoolToBV is ite(b, 1, 0) of width w.
func (c *Ctx) BoolToBV(b *Term, w int) *Term {
	return c.Ite(b, c.Const(w, 1), c.Const(w, 0))
}

// SMulNoOvf is true iff the signed product of a and b fits their width.
func (c *Ctx) SMulNoOvf(a, b *Term) *Term {
	if a.Sort != b.Sort || a.Sort.K != KBV {
		panic("sym.SMulNoOvf sorts")
	}
	if a.IsConst() && b.IsConst() {
		p := new(big.Int).Mul(bigSigned(a), bigSigned(b))
		lim := new(big.Int).Lsh(big.NewInt(1), uint(a.Sort.W-1))
		return c.Bool(p.Cmp(lim) < 0 && p.Cmp(new(big.Int).Neg(lim)) >= 0)
	}
	isSmall := func(t *Term) bool { return t.IsConst() && t.Hi == 0 && t.Val <= 1 }
	if isSmall(a) || isSmall(b) {
		return c.True
	}
	if a.ID > b.ID {
		a, b = b, a
	}
	return c.mk(&Term{Op: OSMulNoOvf, Sort: BoolSort, Args: []*Term{a, b}})
}

// ---------- known bits ----------

// Known returns masks of bits known to be zero / one (W<=64 only).
func (t *Term) Known() (kz, ko uint64) {
	if t.Sort.K != KBV || t.Sort.W > 64 {
		return 0, 0
	}
	if t.kbDone {
		return t.kz, t.ko
	}
	w := t.Sort.W
	m := mask(w)
	switch t.Op {
	case OConst:
		kz, ko = ^t.Val&m, t.Val
	case OBAnd:
		az, ao := t.Args[0].Known()
		bz, bo := t.Args[1].Known()
		kz, ko = az|bz, ao&bo
	case OBOr:
		az, ao := t.Args[0].Known()
		bz, bo := t.Args[1].Known()
		kz, ko = az&bz, ao|bo
	case OBXor:
		az, ao := t.Args[0].Known()
		bz, bo := t.Args[1].Known()
		kz = (az & bz) | (ao & bo)
		ko = (az & bo) | (ao & bz)
	case OBNot:
		az, ao := t.Args[0].Known()
		kz, ko = ao, az
	case OZext:
		az, ao := t.Args[0].Known()
		xw := t.Args[0].Sort.W
		kz, ko = az|(m&^mask(xw)), ao
	case OSext:
		az, ao := t.Args[0].Known()
		xw := t.Args[0].Sort.W
		sb := uint64(1) << uint(xw-1)
		kz, ko = az, ao
		if az&sb != 0 {
			kz |= m &^ mask(xw)
		} else if ao&sb != 0 {
			ko |= m &^ mask(xw)
		}
	case OExtract:
		if t.Args[0].Sort.W <= 64 {
			az, ao := t.Args[0].Known()
			kz, ko = (az>>uint(t.P2))&m, (ao>>uint(t.P2))&m
		}
	case OConcat:
		hz, ho := t.Args[0].Known()
		lz, lo := t.Args[1].Known()
		lw := uint(t.Args[1].Sort.W)
		kz, ko = hz<<lw|lz, ho<<lw|lo
	case OIte:
		az, ao := t.Args[1].Known()
		bz, bo := t.Args[2].Known()
		kz, ko = az&bz, ao&bo
	case OShl:
		if t.Args[1].IsConst() {
			k := uint(t.Args[1].Val)
			az, ao := t.Args[0].Known()
			kz, ko = (az<<k|mask(int(k)))&m, (ao<<k)&m
		} else {
			az, _ := t.Args[0].Known()
			tz := bits.TrailingZeros64(^az)
			if tz > w {
				tz = w
			}
			kz = mask(tz)
		}
	case OLShr:
		if t.Args[1].IsConst() {
			k := uint(t.Args[1].Val)
			az, ao := t.Args[0].Known()
			kz, ko = (az>>k)|(m&^(m>>k)), ao>>k
		} else {
			az, _ := t.Args[0].Known()
			// leading known zeros stay
			lz := bits.LeadingZeros64(^az&m) - (64 - w)
			if lz > 0 {
				kz = m &^ mask(w-lz)
			}
		}
	case OAdd:
		az, ao := t.Args[0].Known()
		bz, bo := t.Args[1].Known()
		if (^az&m)&(^bz&m) == 0 {
			// no bit position where both may be one: add == or
			kz, ko = az&bz, ao|bo
		} else {
			carry := uint64(0)
			for i := 0; i < w; i++ {
				bit := uint64(1) << uint(i)
				if (az|ao)&bit == 0 || (bz|bo)&bit == 0 {
					break
				}
				x, y := (ao>>uint(i))&1, (bo>>uint(i))&1
				s := x ^ y ^ carry
				carry = (x & y) | (x & carry) | (y & carry)
				if s == 1 {
					ko |= bit
				} else {
					kz |= bit
				}
			}
			// magnitude: if the largest possible sum does not wrap, its leading zeros are known
			ahi, bhi := ^az&m, ^bz&m
			if sum := ahi + bhi; sum >= ahi && sum <= m {
				kz |= m &^ mask(bits.Len64(sum))
			}
		}
	case OMul:
		az, _ := t.Args[0].Known()
		bz, _ := t.Args[1].Known()
		tz := bits.TrailingZeros64(^az) + bits.TrailingZeros64(^bz)
		if tz > w {
			tz = w
		}
		kz = mask(tz)
	case OURem:
		if t.Args[1].IsConst() && t.Args[1].Val != 0 {
			n := bits.Len64(t.Args[1].Val - 1)
			kz = m &^ mask(n)
		}
	case OUDiv:
		az, _ := t.Args[0].Known()
		lz := bits.LeadingZeros64(^az&m) - (64 - w)
		if lz > 0 {
			kz = m &^ mask(w-lz)
		}
	}
	kz &= m
	ko &= m
	t.kbDone, t.kz, t.ko = true, kz, ko
	return
}

// URange gives unsigned bounds implied by known bits.
func (t *Term) URange() (lo, hi uint64) {
	kz, ko := t.Known()
	lo, hi = ko, ^kz&mask(t.Sort.W)
	if t.Op == OZext {
		// zero extension keeps the unsigned value
		alo, ahi := t.Args[0].URange()
		if alo > lo {
			lo = alo
		}
		if ahi < hi {
			hi = ahi
		}
		return
	}
	if t.Op == OAdd && t.Sort.W <= 64 {
		// interval sum when it cannot wrap
		alo, ahi := t.Args[0].URange()
		blo, bhi := t.Args[1].URange()
		m := mask(t.Sort.W)
		if s := ahi + bhi; s >= ahi && s <= m {
			if l := alo + blo; l > lo {
				lo = l
			}
			if s < hi {
				hi = s
			}
		}
	}
	return
}

// ---------- floating point ----------

func isNaNBits(w int, b uint64) bool {
	if w == 32 {
		return math.IsNaN(float64(math.Float32frombits(uint32(b))))
	}
	return math.IsNaN(math.Float64frombits(b))
}

func fval(t *Term) float64 {
	if t.Sort.W == 32 {
		return float64(math.Float32frombits(uint32(t.Val)))
	}
	return math.Float64frombits(t.Val)
}

func (c *Ctx) fconstOf(w int, f float64) *Term {
	if w == 32 {
		return c.FConst(32, uint64(math.Float32bits(float32(f))))
	}
	return c.FConst(64, math.Float64bits(f))
}

func (c *Ctx) fbin(op Op, a, b *Term) *Term {
	if a.Sort != b.Sort || a.Sort.K != KFP {
		panic("sym.fbin sorts")
	}
	w := a.Sort.W
	if a.IsConst() && b.IsConst() {
		if w == 32 {
			x, y := math.Float32frombits(uint32(a.Val)), math.Float32frombits(uint32(b.Val))
			var r float32
			switch op {
			case OFAdd:
				r = x + y
			case OFSub:
				r = x - y
			case OFMul:
				r = x * y
			case OFDiv:
				r = x / y
			default:
				goto nofold
			}
			return c.FConst(32, uint64(math.Float32bits(r)))
		}
		x, y := math.Float64frombits(a.Val), math.Float64frombits(b.Val)
		var r float64
		switch op {
		case OFAdd:
			r = x + y
		case OFSub:
			r = x - y
		case OFMul:
			r = x * y
		case OFDiv:
			r = x / y
		default:
			goto nofold
		}
		return c.FConst(64, math.Float64bits(r))
	}
nofold:
	return c.mk(&Term{Op: op, Sort: a.Sort, Args: []*Term{a, b}})
}

func (c *Ctx) FAdd(a, b *Term) *Term { return c.fbin(OFAdd, a, b) }
func (c *Ctx) FSub(a, b *Term) *Term { return c.fbin(OFSub, a, b) }
func (c *Ctx) FMul(a, b *Term) *Term { return c.fbin(OFMul, a, b) }
func (c *Ctx) FDiv(a, b *Term) *Term { return c.fbin(OFDiv, a, b) }
func (c *Ctx) FMin(a, b *Term) *Term { return c.fbin(OFMin, a, b) }
func (c *Ctx) FMax(a, b *Term) *Term { return c.fbin(OFMax, a, b) }

func (c *Ctx) FNeg(a *Term) *Term {
	if a.IsConst() {
		if a.Sort.W == 32 {
			return c.FConst(32, a.Val^0x80000000)
		}
		return c.FConst(64, a.Val^(1<<63))
	}
	return c.mk(&Term{Op: OFNeg, Sort: a.Sort, Args: []*Term{a}})
}

func (c *Ctx) FAbs(a *Term) *Term {
	if a.IsConst() {
		if a.Sort.W == 32 {
			return c.FConst(32, a.Val&^0x80000000)
		}
		return c.FConst(64, a.Val&^(1<<63))
	}
	return c.mk(&Term{Op: OFAbs, Sort: a.Sort, Args: []*Term{a}})
}

func (c *Ctx) FSqrt(a *Term) *Term {
	if a.IsConst() {
		if a.Sort.W == 32 {
			return c.FConst(32, uint64(math.Float32bits(float32(math.Sqrt(float64(math.Float32frombits(uint32(a.Val))))))))
		}
		return c.FConst(64, math.Float64bits(math.Sqrt(math.Float64frombits(a.Val))))
	}
	return c.mk(&Term{Op: OFSqrt, Sort: a.Sort, Args: []*Term{a}})
}

func (c *Ctx) FRound(a *Term, rm int) *Term {
	if a.IsConst() {
		f := fval(a)
		var r float64
		switch rm {
		case RMNearestEven:
			r = math.RoundToEven(f)
		case RMTowardZero:
			r = math.Trunc(f)
		case RMUp:
			r = math.Ceil(f)
		case RMDown:
			r = math.Floor(f)
		case RMNearestAway:
			r = math.Round(f)
		}
		return c.fconstOf(a.Sort.W, r)
	}
	return c.mk(&Term{Op: OFRound, Sort: a.Sort, Args: []*Term{a}, P1: rm})
}

func (c *Ctx) fcmp(op Op, a, b *Term) *Term {
	if a.Sort != b.Sort || a.Sort.K != KFP {
		panic("sym.fcmp sorts")
	}
	if a.IsConst() && b.IsConst() {
		x, y := fval(a), fval(b)
		switch op {
		case OFEq:
			return c.Bool(x == y)
		case OFLt:
			return c.Bool(x < y)
		case OFLe:
			return c.Bool(x <= y)
		}
	}
	return c.mk(&Term{Op: op, Sort: BoolSort, Args: []*Term{a, b}})
}

func (c *Ctx) FEq(a, b *Term) *Term { return c.fcmp(OFEq, a, b) }
func (c *Ctx) FLt(a, b *Term) *Term { return c.fcmp(OFLt, a, b) }
func (c *Ctx) FLe(a, b *Term) *Term { return c.fcmp(OFLe, a, b) }

func (c *Ctx) FIsNaN(a *Term) *Term {
	if a.IsConst() {
		return c.Bool(isNaNBits(a.Sort.W, a.Val))
	}
	if a.Op == OFFromS || a.Op == OFFromU {
		return c.False
	}
	return c.mk(&Term{Op: OFIsNaN, Sort: BoolSort, Args: []*Term{a}})
}

func (c *Ctx) FFromBits(a *Term) *Term {
	w := a.Sort.W
	if w != 32 && w != 64 {
		panic("FFromBits width")
	}
	if a.IsConst() {
		return c.FConst(w, a.Val)
	}
	if a.Op == OFToBits {
		return a.Args[0]
	}
	return c.mk(&Term{Op: OFFromBits, Sort: FP(w), Args: []*Term{a}})
}

// OnSide receives side constraints that define auxiliary variables (FToBits).
type SideSink func(constraint *Term)

// FToBits returns the IEEE bit pattern. For a term that is not a direct
// reinterpretation, an auxiliary BV variable b with (to_fp b) = a is
// introduced; the defining constraint is passed to sink (any NaN pattern is
// allowed, as in IEEE).
func (c *Ctx) FToBits(a *Term, sink SideSink) *Term {
	w := a.Sort.W
	if a.IsConst() {
		return c.Const(w, a.Val)
	}
	if a.Op == OFFromBits {
		return a.Args[0]
	}
	b := c.Var(fmt.Sprintf("fbits!%d", a.ID), BV(w))
	if sink != nil {
		sink(c.Eq(c.mk(&Term{Op: OFFromBits, Sort: FP(w), Args: []*Term{b}}), a))
	}
	return b
}

func (c *Ctx) FToFP(a *Term, w int) *Term {
	if a.Sort.W == w {
		return a
	}
	if a.IsConst() {
		return c.fconstOf(w, fval(a))
	}
	// float32(op(float64(x))) = op32(x) for sqrt (double rounding is innocuous: 53 >= 2*24+2)
	// and for the roundings to integral (exact in both formats)
	if w == 32 && (a.Op == OFSqrt || a.Op == OFRound) && a.Args[0].Op == OFToFP && a.Args[0].Args[0].Sort.W == 32 {
		x := a.Args[0].Args[0]
		if a.Op == OFSqrt {
			return c.FSqrt(x)
		}
		return c.FRound(x, a.P1)
	}
	// float64(float32 value) back to float32 is the identity
	if a.Op == OFToFP && a.Args[0].Sort.W == w && a.Sort.W > w {
		return a.Args[0]
	}
	return c.mk(&Term{Op: OFToFP, Sort: FP(w), Args: []*Term{a}})
}

func (c *Ctx) FFromInt(a *Term, w int, signed bool) *Term {
	if a.IsConst() && a.Sort.W <= 64 {
		if signed {
			iv := a.Int64()
			if w == 32 {
				return c.FConst(32, uint64(math.Float32bits(float32(iv))))
			}
			return c.FConst(64, math.Float64bits(float64(iv)))
		}
		if w == 32 {
			return c.FConst(32, uint64(math.Float32bits(float32(a.Val))))
		}
		return c.FConst(64, math.Float64bits(float64(a.Val)))
	}
	op := OFFromU
	if signed {
		op = OFFromS
	}
	return c.mk(&Term{Op: op, Sort: FP(w), Args: []*Term{a}})
}

// FToInt converts with truncation toward zero. Out-of-range/NaN inputs give
// an unspecified value (callers must guard).
func (c *Ctx) FToInt(a *Term, w int, signed bool) *Term {
	if a.IsConst() {
		f := math.Trunc(fval(a))
		if !math.IsNaN(f) {
			if signed {
				lim := math.Ldexp(1, w-1)
				if f >= -lim && f < lim {
					return c.Const(w, uint64(int64(f)))
				}
			} else {
				lim := math.Ldexp(1, w)
				if f > -1 && f < lim {
					if f >= math.Ldexp(1, 63) {
						return c.Const(w, uint64(f-math.Ldexp(1, 63))+(1<<63))
					}
					return c.Const(w, uint64(f))
				}
			}
		}
	}
	op := OFToU
	if signed {
		op = OFToS
	}
	return c.mk(&Term{Op: op, Sort: BV(w), Args: []*Term{a}, P1: w})
}

// ---------- substitution / evaluation ----------

// Subst rebuilds t with variables replaced according to env (memoised).
func (c *Ctx) Subst(t *Term, env map[*Term]*Term, memo map[*Term]*Term) *Term {
	if r, ok := memo[t]; ok {
		return r
	}
	var r *Term
	switch t.Op {
	case OConst:
		r = t
	case OVar:
		if v, ok := env[t]; ok {
			r = v
		} else {
			r = t
		}
	default:
		args := make([]*Term, len(t.Args))
		changed := false
		for i, a := range t.Args {
			args[i] = c.Subst(a, env, memo)
			if args[i] != a {
				changed = true
			}
		}
		if !changed {
			r = t
		} else {
			r = c.Rebuild(t, args)
		}
	}
	memo[t] = r
	return r
}

// Rebuild applies t's operator to new arguments through the smart constructors.
func (c *Ctx) Rebuild(t *Term, a []*Term) *Term {
	switch t.Op {
	case ONot:
		return c.Not(a[0])
	case OAnd:
		return c.And(a[0], a[1])
	case OOr:
		return c.Or(a[0], a[1])
	case OIte:
		return c.Ite(a[0], a[1], a[2])
	case OEq:
		return c.Eq(a[0], a[1])
	case OAdd, OSub, OMul, OUDiv, OSDiv, OURem, OSRem, OBAnd, OBOr, OBXor, OShl, OLShr, OAShr:
		return c.bin(t.Op, a[0], a[1])
	case OBNot:
		return c.BNot(a[0])
	case ONeg:
		return c.Neg(a[0])
	case OUlt, OUle, OSlt, OSle:
		return c.cmp(t.Op, a[0], a[1])
	case OSMulNoOvf:
		return c.SMulNoOvf(a[0], a[1])
	case OConcat:
		return c.Concat(a[0], a[1])
	case OExtract:
		return c.Extract(a[0], t.P1, t.P2)
	case OZext:
		return c.Zext(a[0], t.P1)
	case OSext:
		return c.Sext(a[0], t.P1)
	case OFAdd, OFSub, OFMul, OFDiv:
		return c.fbin(t.Op, a[0], a[1])
	case OFMin, OFMax:
		if a[0].IsConst() && a[1].IsConst() {
			x, y := fval(a[0]), fval(a[1])
			// SMT-LIB fp.min/max: unspecified for +0/-0 pair; NaN -> other operand
			switch {
			case math.IsNaN(x):
				return a[1]
			case math.IsNaN(y):
				return a[0]
			case t.Op == OFMin && (x < y):
				return a[0]
			case t.Op == OFMin:
				return a[1]
			case x > y:
				return a[0]
			default:
				return a[1]
			}
		}
		return c.fbin(t.Op, a[0], a[1])
	case OFNeg:
		return c.FNeg(a[0])
	case OFAbs:
		return c.FAbs(a[0])
	case OFSqrt:
		return c.FSqrt(a[0])
	case OFRound:
		return c.FRound(a[0], t.P1)
	case OFEq, OFLt, OFLe:
		return c.fcmp(t.Op, a[0], a[1])
	case OFIsNaN:
		return c.FIsNaN(a[0])
	case OFFromBits:
		return c.FFromBits(a[0])
	case OFToFP:
		return c.FToFP(a[0], t.Sort.W)
	case OFFromS:
		return c.FFromInt(a[0], t.Sort.W, true)
	case OFFromU:
		return c.FFromInt(a[0], t.Sort.W, false)
	case OFToS:
		return c.FToInt(a[0], t.P1, true)
	case OFToU:
		return c.FToInt(a[0], t.P1, false)
	}
	panic(fmt.Sprintf("sym.Rebuild: op %d", t.Op))
}

// Eval evaluates t under a total assignment; returns nil if not constant.
func (c *Ctx) Eval(t *Term, env map[*Term]*Term, memo map[*Term]*Term) *Term {
	r := c.Subst(t, env, memo)
	if r.IsConst() {
		return r
	}
	return nil
}

// VarsOf collects the variables occurring in the terms.
func VarsOf(ts ...*Term) []*Term {
	seen := map[*Term]bool{}
	var out []*Term
	var walk func(t *Term)
	walk = func(t *Term) {
		if seen[t] {
			return
		}
		seen[t] = true
		if t.Op == OVar {
			out = append(out, t)
		}
		for _, a := range t.Args {
			walk(a)
		}
	}
	for _, t := range ts {
		walk(t)
	}
	return out
}
