package sym

import "testing"

func TestFoldAlign(t *testing.T) {
	c := NewCtx()
	v := c.Var("d", BV(3))
	size := c.Add(c.Const(32, 8*5+1), c.Zext(v, 29))
	x := c.Add(size, c.Const(32, 7))
	q := c.SDiv(x, c.Const(32, 8))
	r := c.Mul(q, c.Const(32, 8))
	if !r.IsConst() || r.Val != 48 {
		t.Fatalf("alignment did not fold: %v", r)
	}
	if le := c.Sle(size, c.Const(32, 80)); !le.IsTrue() {
		t.Fatalf("comparison did not fold: %v", le)
	}
}
