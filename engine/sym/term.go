// Package sym is the shared symbolic core: hash-consed terms over Bool,
// bit-vector and IEEE float sorts, smart constructors that fold constants and
// apply cheap identities, a known-bits domain, a concrete evaluator, an
// SMT-LIB2 printer and a solver pipe (z3 -in / cvc5 --incremental).
package sym

import (
	"fmt"
	"math/big"
	"strings"
)

type Kind uint8

const (
	KBool Kind = iota
	KBV
	KFP
)

type Sort struct {
	K Kind
	W int // BV width, or 32/64 for FP
}

var BoolSort = Sort{KBool, 1}

func BV(w int) Sort { return Sort{KBV, w} }
func FP(w int) Sort { return Sort{KFP, w} }

func (s Sort) String() string {
	switch s.K {
	case KBool:
		return "Bool"
	case KBV:
		return fmt.Sprintf("(_ BitVec %d)", s.W)
	default:
		if s.W == 32 {
			return "(_ FloatingPoint 8 24)"
		}
		return "(_ FloatingPoint 11 53)"
	}
}

type Op uint8

const (
	OConst Op = iota
	OVar
	ONot
	OAnd
	OOr
	OIte
	OEq
	OAdd
	OSub
	OMul
	OUDiv
	OSDiv
	OURem
	OSRem
	OBAnd
	OBOr
	OBXor
	OBNot
	ONeg
	OShl
	OLShr
	OAShr
	OUlt
	OUle
	OSlt
	OSle
	OConcat
	OExtract // P1=hi P2=lo
	OZext    // P1 = extra bits
	OSext
	// floating point
	OFAdd
	OFSub
	OFMul
	OFDiv
	OFNeg
	OFAbs
	OFSqrt
	OFMin
	OFMax
	OFRound // P1 = rounding mode (RM*)
	OFEq
	OFLt
	OFLe
	OFIsNaN
	OFFromBits // bv -> fp (reinterpret)
	OFToBits   // fp -> bv; NaN canonical (fresh-free: we model as ite(isNaN, canon, bits)) -- encoded via auxiliary var
	OFToFP     // fp -> fp of other width, RNE
	OFFromS    // signed bv -> fp, RNE
	OFFromU    // unsigned bv -> fp, RNE
	OFToS      // fp -> signed bv, RTZ ; P1 = width (unspecified when out of range)
	OFToU      // fp -> unsigned bv, RTZ
	OSMulNoOvf // signed multiplication neither overflows nor underflows (Bool)
)

const (
	RMNearestEven = iota
	RMTowardZero
	RMUp
	RMDown
	RMNearestAway
)

var opNames = map[Op]string{
	ONot: "not", OAnd: "and", OOr: "or", OIte: "ite", OEq: "=",
	OAdd: "bvadd", OSub: "bvsub", OMul: "bvmul", OUDiv: "bvudiv", OSDiv: "bvsdiv", OURem: "bvurem", OSRem: "bvsrem",
	OBAnd: "bvand", OBOr: "bvor", OBXor: "bvxor", OBNot: "bvnot", ONeg: "bvneg", OShl: "bvshl", OLShr: "bvlshr", OAShr: "bvashr",
	OUlt: "bvult", OUle: "bvule", OSlt: "bvslt", OSle: "bvsle", OConcat: "concat",
	OFNeg: "fp.neg", OFAbs: "fp.abs", OFMin: "fp.min", OFMax: "fp.max",
	OFEq: "fp.eq", OFLt: "fp.lt", OFLe: "fp.leq", OFIsNaN: "fp.isNaN",
}

type Term struct {
	Op     Op
	Sort   Sort
	Args   []*Term
	Val    uint64 // constants: low 64 bits (bool: 0/1; fp: raw bits)
	Hi     uint64 // constants wider than 64 bits
	P1, P2 int
	Name   string
	ID     int
	kbDone bool
	kz, ko uint64 // known zero / known one masks (W<=64)
	ctx    *Ctx
}

// Ctx owns the hash-consing table. Not safe for concurrent use: one per task.
type Ctx struct {
	tab    map[string]*Term
	nextID int
	Vars   []*Term
	varByN map[string]*Term
	True   *Term
	False  *Term
	auxN   int
}

func NewCtx() *Ctx {
	c := &Ctx{tab: map[string]*Term{}, varByN: map[string]*Term{}}
	c.True = c.mk(&Term{Op: OConst, Sort: BoolSort, Val: 1})
	c.False = c.mk(&Term{Op: OConst, Sort: BoolSort, Val: 0})
	return c
}

func (c *Ctx) NumTerms() int { return c.nextID }

func (c *Ctx) mk(t *Term) *Term {
	var sb strings.Builder
	fmt.Fprintf(&sb, "%d|%d.%d|%d|%d|%d|%d|%s", t.Op, t.Sort.K, t.Sort.W, t.Val, t.Hi, t.P1, t.P2, t.Name)
	for _, a := range t.Args {
		fmt.Fprintf(&sb, "|%d", a.ID)
	}
	k := sb.String()
	if e, ok := c.tab[k]; ok {
		return e
	}
	t.ID = c.nextID
	c.nextID++
	t.ctx = c
	c.tab[k] = t
	return t
}

func (t *Term) IsConst() bool { return t.Op == OConst }
func (t *Term) IsTrue() bool  { return t.Op == OConst && t.Sort.K == KBool && t.Val == 1 }
func (t *Term) IsFalse() bool { return t.Op == OConst && t.Sort.K == KBool && t.Val == 0 }

func mask(w int) uint64 {
	if w >= 64 {
		return ^uint64(0)
	}
	return (uint64(1) << uint(w)) - 1
}

func (c *Ctx) Bool(b bool) *Term {
	if b {
		return c.True
	}
	return c.False
}

// Const builds a BV constant of width w (w<=64 uses v; wider: use ConstBig).
func (c *Ctx) Const(w int, v uint64) *Term {
	if w <= 64 {
		v &= mask(w)
	}
	return c.mk(&Term{Op: OConst, Sort: BV(w), Val: v})
}

func (c *Ctx) Const128(w int, lo, hi uint64) *Term {
	if w <= 64 {
		return c.Const(w, lo)
	}
	hi &= mask(w - 64)
	return c.mk(&Term{Op: OConst, Sort: BV(w), Val: lo, Hi: hi})
}

func (c *Ctx) ConstBig(w int, b *big.Int) *Term {
	m := new(big.Int).Lsh(big.NewInt(1), uint(w))
	x := new(big.Int).Mod(b, m)
	lo := new(big.Int).And(x, new(big.Int).SetUint64(^uint64(0))).Uint64()
	hi := new(big.Int).Rsh(x, 64).Uint64()
	return c.Const128(w, lo, hi)
}

func (c *Ctx) FConst(w int, bits uint64) *Term {
	if w == 32 {
		bits &= 0xffffffff
	}
	return c.mk(&Term{Op: OConst, Sort: FP(w), Val: bits})
}

// Var returns the (unique) variable of that name; sort must agree.
func (c *Ctx) Var(name string, s Sort) *Term {
	if v, ok := c.varByN[name]; ok {
		if v.Sort != s {
			panic("sym: variable " + name + " redeclared with another sort")
		}
		return v
	}
	v := c.mk(&Term{Op: OVar, Sort: s, Name: name})
	c.varByN[name] = v
	c.Vars = append(c.Vars, v)
	return v
}

func (c *Ctx) HasVar(name string) bool { _, ok := c.varByN[name]; return ok }

func (c *Ctx) Fresh(prefix string, s Sort) *Term {
	c.auxN++
	return c.Var(fmt.Sprintf("%s!%d", prefix, c.auxN), s)
}

// Big returns the unsigned value of a constant.
func (t *Term) Big() *big.Int {
	b := new(big.Int).SetUint64(t.Hi)
	b.Lsh(b, 64)
	return b.Or(b, new(big.Int).SetUint64(t.Val))
}

// Int64 returns the constant as signed value (W<=64).
func (t *Term) Int64() int64 {
	w := t.Sort.W
	if w >= 64 {
		return int64(t.Val)
	}
	if t.Val&(1<<uint(w-1)) != 0 {
		return int64(t.Val | ^mask(w))
	}
	return int64(t.Val)
}

func (t *Term) String() string {
	var sb strings.Builder
	t.str(&sb, 0)
	return sb.String()
}

func (t *Term) str(sb *strings.Builder, depth int) {
	if depth > 6 {
		sb.WriteString("…")
		return
	}
	switch t.Op {
	case OConst:
		switch t.Sort.K {
		case KBool:
			if t.Val == 1 {
				sb.WriteString("true")
			} else {
				sb.WriteString("false")
			}
		case KBV:
			if t.Sort.W > 64 {
				fmt.Fprintf(sb, "0x%x:%d", t.Big(), t.Sort.W)
			} else {
				fmt.Fprintf(sb, "0x%x:%d", t.Val, t.Sort.W)
			}
		default:
			fmt.Fprintf(sb, "fp%d(0x%x)", t.Sort.W, t.Val)
		}
	case OVar:
		sb.WriteString(t.Name)
	default:
		name := opNames[t.Op]
		if name == "" {
			name = fmt.Sprintf("op%d", t.Op)
		}
		sb.WriteString("(" + name)
		if t.Op == OExtract {
			fmt.Fprintf(sb, "[%d:%d]", t.P1, t.P2)
		} else if t.Op == OZext || t.Op == OSext {
			fmt.Fprintf(sb, "+%d", t.P1)
		}
		for _, a := range t.Args {
			sb.WriteString(" ")
			a.str(sb, depth+1)
		}
		sb.WriteString(")")
	}
}
