package sym

import (
	"bufio"
	"fmt"
	"io"
	"math/big"
	"os"
	"os/exec"
	"strings"
	"time"
)

type Result int

const (
	Unsat Result = iota
	Sat
	Unknown
)

func (r Result) String() string { return [...]string{"unsat", "sat", "unknown"}[r] }

type Stats struct {
	Queries  int
	Sat      int
	Unsat    int
	Unknown  int
	Errors   int
	SolverNS int64
	Restarts int
}

// Solver drives one incremental SMT process over a pipe. Terms are sent once
// as (define-fun tN ...) under :global-declarations, so they survive pops.
type Solver struct {
	Kind       string // "z3", "z3-old", "cvc5"
	ctx        *Ctx
	cmd        *exec.Cmd
	in         io.WriteCloser
	out        *bufio.Reader
	defined    map[int]bool
	depth      int
	asserts    [][]*Term // per level, for restart
	Stats      Stats
	Log        io.Writer // optional transcript (SMT-LIB2)
	LastErr    string
	lines      chan string
	pendingPop bool
}

func solverArgv(kind string) []string {
	switch kind {
	case "z3-old":
		return []string{"/usr/bin/z3", "-in"}
	case "cvc5":
		return []string{"cvc5", "--incremental", "--produce-models", "--lang=smt2"}
	default:
		if p := os.Getenv("VERIF_Z3"); p != "" {
			return []string{p, "-in"}
		}
		return []string{"z3-new", "-in"}
	}
}

func NewSolver(ctx *Ctx, kind string) (*Solver, error) {
	s := &Solver{Kind: kind, ctx: ctx}
	s.asserts = [][]*Term{nil}
	if err := s.start(); err != nil {
		return nil, err
	}
	return s, nil
}

func (s *Solver) start() error {
	argv := solverArgv(s.Kind)
	s.cmd = exec.Command(argv[0], argv[1:]...)
	var err error
	s.in, err = s.cmd.StdinPipe()
	if err != nil {
		return err
	}
	op, err := s.cmd.StdoutPipe()
	if err != nil {
		return err
	}
	s.cmd.Stderr = nil
	if err := s.cmd.Start(); err != nil {
		return err
	}
	s.out = bufio.NewReaderSize(op, 1<<16)
	s.defined = map[int]bool{}
	s.lines = make(chan string, 64)
	go func(r *bufio.Reader, ch chan string) {
		for {
			l, err := r.ReadString('\n')
			if l != "" {
				ch <- strings.TrimRight(l, "\r\n")
			}
			if err != nil {
				close(ch)
				return
			}
		}
	}(s.out, s.lines)
	if s.Kind == "cvc5" {
		s.send("(set-logic ALL)")
	}
	s.send("(set-option :global-declarations true)")
	if s.Kind != "cvc5" {
		s.send("(set-option :model.completion true)")
	}
	return nil
}

func (s *Solver) Close() {
	if s.cmd != nil && s.cmd.Process != nil {
		s.in.Close()
		s.cmd.Process.Kill()
		s.cmd.Wait()
		s.cmd = nil
	}
}

func (s *Solver) restart() {
	s.Close()
	s.Stats.Restarts++
	if err := s.start(); err != nil {
		panic("sym: cannot restart solver: " + err.Error())
	}
	// replay the assertion stack
	levels := s.asserts
	s.asserts = nil
	s.depth = 0
	s.asserts = append(s.asserts, nil)
	for i, lv := range levels {
		if i > 0 {
			s.Push()
		}
		for _, t := range lv {
			s.Assert(t)
		}
	}
}

// Reset restarts the solver process with an empty assertion stack.
func (s *Solver) Reset() {
	s.Close()
	s.asserts = [][]*Term{nil}
	s.depth = 0
	s.pendingPop = false
	if err := s.start(); err != nil {
		panic("sym: cannot restart solver: " + err.Error())
	}
}

func (s *Solver) send(line string) {
	if s.Log != nil {
		fmt.Fprintln(s.Log, line)
	}
	io.WriteString(s.in, line+"\n")
}

func quoteName(n string) string { return "|" + n + "|" }

func bvLit(w int, t *Term) string {
	if w > 64 {
		b := t.Big()
		if w%4 == 0 {
			return fmt.Sprintf("#x%0*x", w/4, b)
		}
		return fmt.Sprintf("#b%0*b", w, b)
	}
	if w%4 == 0 {
		return fmt.Sprintf("#x%0*x", w/4, t.Val)
	}
	return fmt.Sprintf("#b%0*b", w, t.Val)
}

func fpTo(w int) string {
	if w == 32 {
		return "(_ to_fp 8 24)"
	}
	return "(_ to_fp 11 53)"
}

var rmNames = [...]string{"RNE", "RTZ", "RTP", "RTN", "RNA"}

func (s *Solver) ref(t *Term) string {
	switch t.Op {
	case OConst:
		switch t.Sort.K {
		case KBool:
			if t.Val == 1 {
				return "true"
			}
			return "false"
		case KBV:
			return bvLit(t.Sort.W, t)
		default:
			if t.Sort.W == 32 {
				return fmt.Sprintf("(%s #x%08x)", fpTo(32), t.Val)
			}
			return fmt.Sprintf("(%s #x%016x)", fpTo(64), t.Val)
		}
	case OVar:
		return quoteName(t.Name)
	}
	return fmt.Sprintf("t%d", t.ID)
}

// define sends definitions for t and everything below it (iteratively).
func (s *Solver) define(root *Term) {
	if root.Op == OConst {
		return
	}
	if s.defined[root.ID] {
		return
	}
	type fr struct {
		t *Term
		i int
	}
	stack := []fr{{root, 0}}
	for len(stack) > 0 {
		f := &stack[len(stack)-1]
		t := f.t
		if s.defined[t.ID] || t.Op == OConst {
			stack = stack[:len(stack)-1]
			continue
		}
		if f.i < len(t.Args) {
			a := t.Args[f.i]
			f.i++
			if !s.defined[a.ID] && a.Op != OConst {
				stack = append(stack, fr{a, 0})
			}
			continue
		}
		s.defined[t.ID] = true
		stack = stack[:len(stack)-1]
		if t.Op == OVar {
			s.send(fmt.Sprintf("(declare-const %s %s)", quoteName(t.Name), t.Sort))
			continue
		}
		s.send(fmt.Sprintf("(define-fun t%d () %s %s)", t.ID, t.Sort, s.body(t)))
	}
}

func (s *Solver) body(t *Term) string {
	a := make([]string, len(t.Args))
	for i, x := range t.Args {
		a[i] = s.ref(x)
	}
	switch t.Op {
	case OExtract:
		return fmt.Sprintf("((_ extract %d %d) %s)", t.P1, t.P2, a[0])
	case OZext:
		return fmt.Sprintf("((_ zero_extend %d) %s)", t.P1, a[0])
	case OSext:
		return fmt.Sprintf("((_ sign_extend %d) %s)", t.P1, a[0])
	case OFAdd:
		return fmt.Sprintf("(fp.add RNE %s %s)", a[0], a[1])
	case OFSub:
		return fmt.Sprintf("(fp.sub RNE %s %s)", a[0], a[1])
	case OFMul:
		return fmt.Sprintf("(fp.mul RNE %s %s)", a[0], a[1])
	case OFDiv:
		return fmt.Sprintf("(fp.div RNE %s %s)", a[0], a[1])
	case OFSqrt:
		return fmt.Sprintf("(fp.sqrt RNE %s)", a[0])
	case OFRound:
		return fmt.Sprintf("(fp.roundToIntegral %s %s)", rmNames[t.P1], a[0])
	case OFFromBits:
		return fmt.Sprintf("(%s %s)", fpTo(t.Sort.W), a[0])
	case OFToFP:
		return fmt.Sprintf("(%s RNE %s)", fpTo(t.Sort.W), a[0])
	case OFFromS:
		return fmt.Sprintf("(%s RNE %s)", fpTo(t.Sort.W), a[0])
	case OFFromU:
		if t.Sort.W == 32 {
			return fmt.Sprintf("((_ to_fp_unsigned 8 24) RNE %s)", a[0])
		}
		return fmt.Sprintf("((_ to_fp_unsigned 11 53) RNE %s)", a[0])
	case OFToS:
		return fmt.Sprintf("((_ fp.to_sbv %d) RTZ %s)", t.P1, a[0])
	case OFToU:
		return fmt.Sprintf("((_ fp.to_ubv %d) RTZ %s)", t.P1, a[0])
	case OSMulNoOvf:
		if s.Kind == "cvc5" {
			return fmt.Sprintf("(not (bvsmulo %s %s))", a[0], a[1])
		}
		return fmt.Sprintf("(and (bvsmul_noovfl %s %s) (bvsmul_noudfl %s %s))", a[0], a[1], a[0], a[1])
	}
	name, ok := opNames[t.Op]
	if !ok {
		panic(fmt.Sprintf("sym: no SMT name for op %d", t.Op))
	}
	return "(" + name + " " + strings.Join(a, " ") + ")"
}

func (s *Solver) Push() {
	s.send("(push 1)")
	s.depth++
	s.asserts = append(s.asserts, nil)
}

func (s *Solver) Pop() {
	s.send("(pop 1)")
	s.depth--
	s.asserts = s.asserts[:len(s.asserts)-1]
}

// PopTo pops down to the given depth.
func (s *Solver) PopTo(d int) {
	for s.depth > d {
		s.Pop()
	}
}

func (s *Solver) Depth() int { return s.depth }

func (s *Solver) Assert(t *Term) {
	if t.IsTrue() {
		return
	}
	if len(s.asserts) == 0 {
		s.asserts = append(s.asserts, nil)
	}
	s.asserts[len(s.asserts)-1] = append(s.asserts[len(s.asserts)-1], t)
	s.define(t)
	s.send("(assert " + s.ref(t) + ")")
}

func (s *Solver) readLine(deadline time.Duration) (string, bool) {
	select {
	case l, ok := <-s.lines:
		if !ok {
			return "", false
		}
		return l, true
	case <-time.After(deadline):
		return "", false
	}
}

// Check runs check-sat under extra assumptions (pushed and popped).
func (s *Solver) Check(timeout time.Duration, extra ...*Term) Result {
	for _, e := range extra {
		if e.IsFalse() {
			return Unsat
		}
	}
	t0 := time.Now()
	defer func() {
		d := time.Since(t0)
		s.Stats.SolverNS += d.Nanoseconds()
		if slowQ && d > 300*time.Millisecond {
			fmt.Fprintf(os.Stderr, "SLOWQ check #%d %v extra=%d\n", s.Stats.Queries, d, len(extra))
		}
	}()
	s.Stats.Queries++
	ms := int(timeout / time.Millisecond)
	if s.Kind == "cvc5" {
		s.send(fmt.Sprintf("(set-option :tlimit-per %d)", ms))
	} else {
		s.send(fmt.Sprintf("(set-option :timeout %d)", ms))
	}
	if len(extra) > 0 {
		s.send("(push 1)")
		for _, e := range extra {
			s.define(e)
			s.send("(assert " + s.ref(e) + ")")
		}
	}
	s.send("(check-sat)")
	res := Unknown
	got := false
	for !got {
		l, ok := s.readLine(timeout + 20*time.Second)
		if !ok {
			// solver died or hung: restart, report unknown
			s.LastErr = "solver timeout/hang"
			s.Stats.Unknown++
			s.restartKeep()
			return Unknown
		}
		switch {
		case l == "sat":
			res, got = Sat, true
		case l == "unsat":
			res, got = Unsat, true
		case l == "unknown" || strings.HasPrefix(l, "timeout"):
			res, got = Unknown, true
		case strings.HasPrefix(l, "(error"):
			s.LastErr = l
			s.Stats.Errors++
			// an error anywhere makes the answer unreliable: drain the reply and restart
			s.readLine(2 * time.Second)
			s.Stats.Unknown++
			s.restartKeep()
			return Unknown
		}
	}
	if len(extra) > 0 && res != Sat {
		s.send("(pop 1)")
	}
	switch res {
	case Sat:
		s.Stats.Sat++
		if len(extra) > 0 {
			// keep frame for a following Model() call; popped lazily
			s.pendingPop = true
		}
	case Unsat:
		s.Stats.Unsat++
	default:
		s.Stats.Unknown++
	}
	return res
}

func (s *Solver) restartKeep() {
	s.pendingPop = false
	s.restart()
}

// Model fetches values for vars after a Sat answer. Always call DropModel
// (or Model) after a Sat Check with extra assumptions before anything else.
var slowQ = os.Getenv("GOSYM_SLOWQ") != ""

func (s *Solver) Model(vars []*Term) map[*Term]*Term {
	if slowQ {
		t0 := time.Now()
		defer func() {
			if d := time.Since(t0); d > 300*time.Millisecond {
				fmt.Fprintf(os.Stderr, "SLOWQ model %v vars=%d\n", d, len(vars))
			}
		}()
	}
	m := map[*Term]*Term{}
	defer s.DropModel()
	var ask []*Term
	for _, v := range vars {
		if s.defined[v.ID] {
			ask = append(ask, v)
		} else {
			// unconstrained: pick zero
			m[v] = s.zero(v.Sort)
		}
	}
	const chunk = 200
	for i := 0; i < len(ask); i += chunk {
		j := i + chunk
		if j > len(ask) {
			j = len(ask)
		}
		var sb strings.Builder
		sb.WriteString("(get-value (")
		for _, v := range ask[i:j] {
			sb.WriteString(quoteName(v.Name) + " ")
		}
		sb.WriteString("))")
		s.send(sb.String())
		txt := s.readSexp()
		vals := parseGetValue(txt)
		if len(vals) != j-i {
			s.LastErr = "get-value parse: " + txt
			return nil
		}
		for k, v := range ask[i:j] {
			c := s.parseVal(v.Sort, vals[k])
			if c == nil {
				s.LastErr = "get-value literal: " + vals[k]
				return nil
			}
			m[v] = c
		}
	}
	return m
}

func (s *Solver) zero(so Sort) *Term {
	switch so.K {
	case KBool:
		return s.ctx.False
	case KBV:
		return s.ctx.Const128(so.W, 0, 0)
	}
	return s.ctx.FConst(so.W, 0)
}

func (s *Solver) DropModel() {
	if s.pendingPop {
		s.send("(pop 1)")
		s.pendingPop = false
	}
}

func (s *Solver) readSexp() string {
	var sb strings.Builder
	depth := 0
	started := false
	for {
		l, ok := s.readLine(30 * time.Second)
		if !ok {
			return sb.String()
		}
		sb.WriteString(l)
		sb.WriteByte(' ')
		for _, ch := range l {
			if ch == '(' {
				depth++
				started = true
			} else if ch == ')' {
				depth--
			}
		}
		if started && depth <= 0 {
			return sb.String()
		}
	}
}

// parseGetValue splits "((name val) (name val) ...)" into the val strings.
func parseGetValue(txt string) []string {
	var out []string
	i := 0
	n := len(txt)
	// skip first '('
	for i < n && txt[i] != '(' {
		i++
	}
	i++
	for i < n {
		for i < n && txt[i] != '(' && txt[i] != ')' {
			i++
		}
		if i >= n || txt[i] == ')' {
			break
		}
		i++ // '(' of pair
		// name: either |...| or symbol
		for i < n && txt[i] == ' ' {
			i++
		}
		if i < n && txt[i] == '|' {
			i++
			for i < n && txt[i] != '|' {
				i++
			}
			i++
		} else {
			for i < n && txt[i] != ' ' {
				i++
			}
		}
		for i < n && txt[i] == ' ' {
			i++
		}
		// value: atom or parenthesised
		st := i
		if i < n && txt[i] == '(' {
			d := 0
			for i < n {
				if txt[i] == '(' {
					d++
				} else if txt[i] == ')' {
					d--
					if d == 0 {
						i++
						break
					}
				}
				i++
			}
		} else {
			for i < n && txt[i] != ')' && txt[i] != ' ' {
				i++
			}
		}
		out = append(out, strings.TrimSpace(txt[st:i]))
		for i < n && txt[i] != ')' {
			i++
		}
		i++ // ')' of pair
	}
	return out
}

func (s *Solver) parseVal(so Sort, v string) *Term {
	switch so.K {
	case KBool:
		if v == "true" {
			return s.ctx.True
		}
		if v == "false" {
			return s.ctx.False
		}
		return nil
	case KBV:
		b := new(big.Int)
		switch {
		case strings.HasPrefix(v, "#x"):
			if _, ok := b.SetString(v[2:], 16); !ok {
				return nil
			}
		case strings.HasPrefix(v, "#b"):
			if _, ok := b.SetString(v[2:], 2); !ok {
				return nil
			}
		case strings.HasPrefix(v, "(_ bv"):
			f := strings.Fields(strings.Trim(v, "()"))
			if len(f) < 2 {
				return nil
			}
			if _, ok := b.SetString(f[1][2:], 10); !ok {
				return nil
			}
		default:
			return nil
		}
		return s.ctx.ConstBig(so.W, b)
	}
	return nil
}
