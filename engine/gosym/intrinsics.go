package gosym

import (
	"fmt"
	"go/types"
	"math"
	"strconv"
	"strings"

	"golang.org/x/tools/go/ssa"

	"verif/engine/sym"
)

func (m *Machine) argStr(v Value) string {
	s, ok := v.(Str)
	if !ok || !s.Concrete() {
		m.path.abort("unsupported", "harness API needs a constant string argument")
	}
	return s.S
}

func (m *Machine) stub(name string) { m.ex.StubsHit[name]++ }

// errorValue builds an error whose dynamic type is *errors.errorString.
func (m *Machine) errorValue(msg string) Value {
	pkg := m.Prog.ImportedPackage("errors")
	if pkg == nil {
		m.path.abort("unsupported", "errors package not loaded")
	}
	t := pkg.Type("errorString").Object().Type()
	cell := new(Value)
	*cell = Struct{Str{S: msg}}
	return Iface{T: types.NewPointer(t), V: cell}
}

// fmtArgs renders values for the best-effort Sprintf model.
func (m *Machine) render(v Value) (string, bool) {
	switch v := v.(type) {
	case Iface:
		if v.T == nil {
			return "<nil>", true
		}
		if t, ok := v.V.(*sym.Term); ok && t.IsConst() {
			if _, signed, isInt := intWidth(v.T); isInt {
				if signed {
					return strconv.FormatInt(t.Int64(), 10), true
				}
				return strconv.FormatUint(t.Val, 10), true
			}
			if isBool(v.T) {
				return strconv.FormatBool(t.Val == 1), true
			}
		}
		if s, ok := v.V.(Str); ok && s.Concrete() {
			return s.S, true
		}
	}
	return "?", false
}

func (m *Machine) sprintf(format string, args []Value) Str {
	// Formatting is never the subject of a check: produce a deterministic
	// placeholder that keeps the format and the concretely known operands.
	var sb strings.Builder
	sb.WriteString(format)
	for _, a := range args {
		s, _ := m.render(a)
		sb.WriteString("|" + s)
	}
	return Str{S: sb.String()}
}

func variadic(v Value) []Value {
	sl, _ := v.([]Value)
	return sl
}

func registerIntrinsics(m *Machine) {
	I := m.intr
	c := m.ctx

	// ----- harness API (functions named vf* in harness packages) -----
	mkInput := func(w int) Intrinsic {
		return func(m *Machine, fr *frame, a []Value) Value {
			return m.path.NewInput(m.argStr(a[0]), w)
		}
	}
	I["vf:vfU8"] = mkInput(8)
	I["vf:vfU16"] = mkInput(16)
	I["vf:vfU32"] = mkInput(32)
	I["vf:vfU64"] = mkInput(64)
	I["vf:vfI8"] = mkInput(8)
	I["vf:vfI16"] = mkInput(16)
	I["vf:vfI32"] = mkInput(32)
	I["vf:vfI64"] = mkInput(64)
	I["vf:vfInt"] = mkInput(64)
	I["vf:vfBool"] = func(m *Machine, fr *frame, a []Value) Value {
		v := m.path.NewInput(m.argStr(a[0]), 8)
		m.path.assume(c.Ule(v, c.Const(8, 1)))
		return c.Eq(v, c.Const(8, 1))
	}
	I["vf:vfBytes"] = func(m *Machine, fr *frame, a []Value) Value {
		name := m.argStr(a[0])
		n := m.asInt(a[1], "vfBytes length")
		out := make([]Value, n)
		for i := range out {
			out[i] = m.path.NewInput(fmt.Sprintf("%s[%d]", name, i), 8)
		}
		return out
	}
	I["vf:vfChoice"] = func(m *Machine, fr *frame, a []Value) Value {
		n := m.asInt(a[1], "vfChoice n")
		k := m.path.Choice(n)
		m.path.choices = append(m.path.choices, [2]string{m.argStr(a[0]), strconv.FormatInt(int64(k), 16)})
		return c.Const(64, uint64(k))
	}
	I["vf:vfCase"] = func(m *Machine, fr *frame, a []Value) Value {
		return c.Const(64, uint64(m.ex.Case))
	}
	I["vf:vfAssume"] = func(m *Machine, fr *frame, a []Value) Value {
		t := m.term(a[0])
		if t.IsFalse() {
			m.path.abort("assume", "assumption false")
		}
		if t.IsTrue() {
			return nil
		}
		ok, known := m.path.feasible(t)
		if !known {
			m.path.abort("incomplete", "solver unknown at vfAssume")
		}
		if !ok {
			m.path.abort("assume", "assumption infeasible")
		}
		m.path.assume(t)
		return nil
	}
	I["vf:vfAssert"] = func(m *Machine, fr *frame, a []Value) Value {
		m.path.Assert(m.term(a[0]), m.argStr(a[1]))
		return nil
	}
	I["vf:vfDiag"] = func(m *Machine, fr *frame, a []Value) Value {
		m.path.Diag(m.term(a[0]), m.argStr(a[1]))
		return nil
	}
	I["vf:vfObserve"] = func(m *Machine, fr *frame, a []Value) Value {
		m.path.Observe(m.argStr(a[0]), m.term(a[1]))
		return nil
	}
	I["vf:vfNote"] = func(m *Machine, fr *frame, a []Value) Value {
		m.ex.Notes[m.argStr(a[0])]++
		return nil
	}
	I["vf:vfB2U"] = func(m *Machine, fr *frame, a []Value) Value { return c.BoolToBV(m.term(a[0]), 64) } // branch-free
	I["vf:vfSelect"] = func(m *Machine, fr *frame, a []Value) Value { return c.Ite(m.term(a[0]), m.term(a[1]), m.term(a[2])) } // branch-free
	I["vf:vfSymbolic"] = func(m *Machine, fr *frame, a []Value) Value { return c.True }

	// ----- fmt / errors / os -----
	I["fmt.Errorf"] = func(m *Machine, fr *frame, a []Value) Value {
		m.stub("fmt.Errorf")
		return m.errorValue(m.sprintfArg(a[0], variadic(a[1])).S)
	}
	I["fmt.Sprintf"] = func(m *Machine, fr *frame, a []Value) Value {
		m.stub("fmt.Sprintf")
		return m.sprintfArg(a[0], variadic(a[1]))
	}
	sprint := func(m *Machine, fr *frame, a []Value) Value {
		m.stub("fmt.Sprint")
		return m.sprintf("", variadic(a[0]))
	}
	I["fmt.Sprint"] = sprint
	I["fmt.Sprintln"] = sprint
	nop := func(m *Machine, fr *frame, a []Value) Value { m.stub(fr.fn.String()); return fr.m.zeroResults(fr.fn) }
	for _, n := range []string{"fmt.Println", "fmt.Printf", "fmt.Print", "fmt.Fprintf", "fmt.Fprintln", "fmt.Fprint",
		"log.Printf", "log.Println", "log.Print", "(*sync.Mutex).Lock", "(*sync.Mutex).Unlock", "(*sync.RWMutex).Lock",
		"(*sync.RWMutex).Unlock", "(*sync.RWMutex).RLock", "(*sync.RWMutex).RUnlock", "runtime.GC", "runtime.KeepAlive"} {
		I[n] = nop
	}
	I["(*sync.Once).Do"] = func(m *Machine, fr *frame, a []Value) Value {
		cell := a[0].(*Value)
		st := (*cell).(Struct)
		// use field 0 as the done flag whatever its real type is
		if t, ok := st[0].(*sym.Term); ok && t.IsConst() && t.Val != 0 {
			return nil
		}
		if _, ok := st[0].(Opaque); ok {
			return nil
		}
		switch st[0].(type) {
		case *sym.Term:
			m.store(&st[0], m.ctx.Const(st[0].(*sym.Term).Sort.W, 1))
		default:
			m.store(&st[0], Opaque{"once-done"})
		}
		m.call(fr, a[1], nil, 0)
		return nil
	}
	I["os.Exit"] = func(m *Machine, fr *frame, a []Value) Value {
		panic(exitPanic{m.term(a[0])})
	}
	I["(runtime.errorString).Error"] = func(m *Machine, fr *frame, a []Value) Value {
		return a[0]
	}
	I["internal/abi.NoEscape"] = func(m *Machine, fr *frame, a []Value) Value { return a[0] }
	I["(*strings.Builder).String"] = func(m *Machine, fr *frame, a []Value) Value {
		st := (*a[0].(*Value)).(Struct)
		buf, _ := st[1].([]Value)
		b := make([]*sym.Term, len(buf))
		for i, e := range buf {
			b[i] = m.term(e)
		}
		return mkStr(b)
	}
	I["(*strings.Builder).copyCheck"] = func(m *Machine, fr *frame, a []Value) Value { return nil }

	// ----- sort.Slice / sort.SliceStable (reflection-based in the library): stable insertion sort
	// in place through the caller's less closure (forks on symbolic comparisons like any branch)
	sortSlice := func(m *Machine, fr *frame, a []Value) Value {
		m.stub("sort.Slice")
		iv, _ := a[0].(Iface)
		sl, ok := iv.V.([]Value)
		if !ok {
			m.path.abort("unsupported", "sort.Slice on a non-slice")
		}
		less := a[1]
		idx := func(i int) Value { return c.Const(64, uint64(i)) }
		for i := 1; i < len(sl); i++ {
			for j := i; j > 0; j-- {
				r := m.call(fr, less, []Value{idx(j), idx(j - 1)}, 0)
				if !m.path.Branch(m.term(r)) {
					break
				}
				x, y := copyVal(sl[j]), copyVal(sl[j-1])
				m.store(&sl[j], y)
				m.store(&sl[j-1], x)
			}
		}
		return nil
	}
	I["sort.Slice"] = sortSlice
	I["sort.SliceStable"] = sortSlice

	// ----- errors.As / errors.Is (reflection-based in the library) -----
	unwrap := func(m *Machine, fr *frame, e Iface) (Iface, bool) {
		if e.T == nil {
			return Iface{}, false
		}
		f := m.Prog.LookupMethod(e.T, nil, "Unwrap")
		if f == nil || f.Signature.Results().Len() != 1 {
			return Iface{}, false
		}
		r, ok := m.call(fr, f, []Value{e.V}, 0).(Iface)
		return r, ok && r.T != nil
	}
	I["errors.As"] = func(m *Machine, fr *frame, a []Value) Value {
		m.stub("errors.As")
		err, _ := a[0].(Iface)
		tgt, _ := a[1].(Iface)
		pt, isPtr := tgt.T.(*types.Pointer)
		cell, _ := tgt.V.(*Value)
		if !isPtr || cell == nil {
			m.panicRT("errors: target must be a non-nil pointer")
		}
		want := pt.Elem()
		for n := 0; err.T != nil && n < 20; n++ {
			if it, isI := want.Underlying().(*types.Interface); isI {
				if types.Implements(err.T, it) {
					m.store(cell, err)
					return c.True
				}
			} else if types.Identical(err.T, want) {
				m.store(cell, copyVal(err.V))
				return c.True
			}
			next, ok := unwrap(m, fr, err)
			if !ok {
				break
			}
			err = next
		}
		return c.False
	}
	I["errors.Is"] = func(m *Machine, fr *frame, a []Value) Value {
		m.stub("errors.Is")
		err, _ := a[0].(Iface)
		tgt, _ := a[1].(Iface)
		for n := 0; n < 20; n++ {
			eq := m.equals(types.Universe.Lookup("error").Type(), err, tgt)
			if m.path.Branch(eq) {
				return c.True
			}
			next, ok := unwrap(m, fr, err)
			if !ok {
				break
			}
			err = next
		}
		return c.False
	}

	// ----- strconv (concrete arguments only) -----
	I["strconv.Itoa"] = func(m *Machine, fr *frame, a []Value) Value {
		t := m.term(a[0])
		if !t.IsConst() {
			m.stub("strconv.Itoa(symbolic)")
			return Str{S: "<itoa>"}
		}
		return Str{S: strconv.FormatInt(t.Int64(), 10)}
	}
	I["strconv.FormatInt"] = func(m *Machine, fr *frame, a []Value) Value {
		t, b := m.term(a[0]), m.term(a[1])
		if !t.IsConst() || !b.IsConst() {
			m.stub("strconv.FormatInt(symbolic)")
			return Str{S: "<fmtint>"}
		}
		return Str{S: strconv.FormatInt(t.Int64(), int(b.Int64()))}
	}
	I["strconv.FormatUint"] = func(m *Machine, fr *frame, a []Value) Value {
		t, b := m.term(a[0]), m.term(a[1])
		if !t.IsConst() || !b.IsConst() {
			m.stub("strconv.FormatUint(symbolic)")
			return Str{S: "<fmtuint>"}
		}
		return Str{S: strconv.FormatUint(t.Val, int(b.Int64()))}
	}
	I["strconv.Quote"] = func(m *Machine, fr *frame, a []Value) Value {
		s := a[0].(Str)
		if !s.Concrete() {
			m.stub("strconv.Quote(symbolic)")
			return Str{S: "<quote>"}
		}
		return Str{S: strconv.Quote(s.S)}
	}

	// ----- internal/bytealg reference loops -----
	bytesOf := func(m *Machine, v Value) []*sym.Term {
		switch v := v.(type) {
		case Str:
			return m.strBytes(v)
		case []Value:
			out := make([]*sym.Term, len(v))
			for i, e := range v {
				out[i] = m.term(e)
			}
			return out
		}
		panic("bytesOf")
	}
	indexByte := func(m *Machine, fr *frame, a []Value) Value {
		bs := bytesOf(m, a[0])
		x := m.term(a[1])
		for i, b := range bs {
			if m.path.Branch(c.Eq(b, x)) {
				return c.Const(64, uint64(i))
			}
		}
		return c.Const(64, ^uint64(0))
	}
	I["internal/bytealg.IndexByte"] = indexByte
	I["internal/bytealg.IndexByteString"] = indexByte
	lastIndexByte := func(m *Machine, fr *frame, a []Value) Value {
		bs := bytesOf(m, a[0])
		x := m.term(a[1])
		for i := len(bs) - 1; i >= 0; i-- {
			if m.path.Branch(c.Eq(bs[i], x)) {
				return c.Const(64, uint64(i))
			}
		}
		return c.Const(64, ^uint64(0))
	}
	I["internal/bytealg.LastIndexByte"] = lastIndexByte
	I["internal/bytealg.LastIndexByteString"] = lastIndexByte
	count := func(m *Machine, fr *frame, a []Value) Value {
		bs := bytesOf(m, a[0])
		x := m.term(a[1])
		r := c.Const(64, 0)
		for _, b := range bs {
			r = c.Add(r, c.BoolToBV(c.Eq(b, x), 64))
		}
		return r
	}
	I["internal/bytealg.Count"] = count
	I["internal/bytealg.CountString"] = count
	I["internal/bytealg.Equal"] = func(m *Machine, fr *frame, a []Value) Value {
		x, y := bytesOf(m, a[0]), bytesOf(m, a[1])
		if len(x) != len(y) {
			return c.False
		}
		r := c.True
		for i := range x {
			r = c.And(r, c.Eq(x[i], y[i]))
		}
		return r
	}
	I["internal/bytealg.Compare"] = func(m *Machine, fr *frame, a []Value) Value {
		x, y := mkStr(bytesOf(m, a[0])), mkStr(bytesOf(m, a[1]))
		lt := m.strLess(x, y, false)
		eq := m.strEq(x, y)
		return c.Ite(eq, c.Const(64, 0), c.Ite(lt, c.Const(64, ^uint64(0)), c.Const(64, 1)))
	}
	indexStr := func(m *Machine, fr *frame, a []Value) Value {
		x, y := bytesOf(m, a[0]), bytesOf(m, a[1])
		for i := 0; i+len(y) <= len(x); i++ {
			eq := c.True
			for j := range y {
				eq = c.And(eq, c.Eq(x[i+j], y[j]))
			}
			if m.path.Branch(eq) {
				return c.Const(64, uint64(i))
			}
		}
		return c.Const(64, ^uint64(0))
	}
	I["internal/bytealg.Index"] = indexStr
	I["internal/bytealg.IndexString"] = indexStr
	I["internal/bytealg.MakeNoZero"] = func(m *Machine, fr *frame, a []Value) Value {
		n := m.asInt(a[0], "MakeNoZero")
		out := make([]Value, n)
		for i := range out {
			out[i] = c.Const(8, 0)
		}
		return out
	}
	// Clone copies through unsafe.String; strings are immutable values here
	I["internal/stringslite.Clone"] = func(m *Machine, fr *frame, a []Value) Value { return a[0] }
	I["strings.Clone"] = func(m *Machine, fr *frame, a []Value) Value { return a[0] }
	I["strconv.cloneString"] = func(m *Machine, fr *frame, a []Value) Value { return a[0] }
	I["internal/stringslite.Index"] = indexStr
	I["internal/stringslite.IndexByte"] = indexByte

	// ----- math -----
	I["math.Float64bits"] = func(m *Machine, fr *frame, a []Value) Value { return c.FToBits(m.term(a[0]), m.path.assume) }
	I["math.Float32bits"] = func(m *Machine, fr *frame, a []Value) Value { return c.FToBits(m.term(a[0]), m.path.assume) }
	I["math.Float64frombits"] = func(m *Machine, fr *frame, a []Value) Value { return c.FFromBits(m.term(a[0])) }
	I["math.Float32frombits"] = func(m *Machine, fr *frame, a []Value) Value { return c.FFromBits(m.term(a[0])) }
	I["math.Abs"] = func(m *Machine, fr *frame, a []Value) Value { return c.FAbs(m.term(a[0])) }
	I["math.Sqrt"] = func(m *Machine, fr *frame, a []Value) Value { return c.FSqrt(m.term(a[0])) }
	I["math.Floor"] = func(m *Machine, fr *frame, a []Value) Value { return c.FRound(m.term(a[0]), sym.RMDown) }
	I["math.Ceil"] = func(m *Machine, fr *frame, a []Value) Value { return c.FRound(m.term(a[0]), sym.RMUp) }
	I["math.Trunc"] = func(m *Machine, fr *frame, a []Value) Value { return c.FRound(m.term(a[0]), sym.RMTowardZero) }
	I["math.RoundToEven"] = func(m *Machine, fr *frame, a []Value) Value { return c.FRound(m.term(a[0]), sym.RMNearestEven) }
	I["math.Round"] = func(m *Machine, fr *frame, a []Value) Value { return c.FRound(m.term(a[0]), sym.RMNearestAway) }
	I["math.IsNaN"] = func(m *Machine, fr *frame, a []Value) Value { return c.FIsNaN(m.term(a[0])) }
	I["math.NaN"] = func(m *Machine, fr *frame, a []Value) Value { return c.FConst(64, 0x7FF8000000000001) }
	I["math.Inf"] = func(m *Machine, fr *frame, a []Value) Value {
		s := m.term(a[0])
		return c.Ite(c.Sle(c.Const(64, 0), s), c.FConst(64, math.Float64bits(math.Inf(1))), c.FConst(64, math.Float64bits(math.Inf(-1))))
	}
	I["math.IsInf"] = func(m *Machine, fr *frame, a []Value) Value {
		f, s := m.term(a[0]), m.term(a[1])
		pinf := c.Eq(f, c.FConst(64, math.Float64bits(math.Inf(1))))
		ninf := c.Eq(f, c.FConst(64, math.Float64bits(math.Inf(-1))))
		z := c.Const(64, 0)
		return c.Or(c.And(c.Sle(z, s), pinf), c.And(c.Sle(s, z), ninf))
	}
	I["math.Signbit"] = func(m *Machine, fr *frame, a []Value) Value {
		b := c.FToBits(m.term(a[0]), m.path.assume)
		return c.Eq(c.Extract(b, 63, 63), c.Const(1, 1))
	}
	I["math.Copysign"] = func(m *Machine, fr *frame, a []Value) Value {
		x := c.FToBits(m.term(a[0]), m.path.assume)
		y := c.FToBits(m.term(a[1]), m.path.assume)
		return c.FFromBits(c.Concat(c.Extract(y, 63, 63), c.Extract(x, 62, 0)))
	}
}

func (m *Machine) sprintfArg(f Value, args []Value) Str {
	fs, _ := f.(Str)
	format := "<symbolic format>"
	if fs.Concrete() {
		format = fs.S
	}
	return m.sprintf(format, args)
}

var _ = ssa.BuilderMode(0)
