package gosym

import (
	"encoding/json"
	"fmt"
	"go/token"
	"os"
	"runtime/debug"
	"sort"
	"strings"
	"sync"
	"time"

	"golang.org/x/tools/go/packages"
	"golang.org/x/tools/go/ssa"
	"golang.org/x/tools/go/ssa/ssautil"

	"verif/engine/sym"
)

type LoadConfig struct {
	Dir     string            // module root of the code under test
	Overlay map[string]string // virtual path -> real file
	Tags    string
	Pkgs    []string
}

func Load(cfg LoadConfig) (*ssa.Program, []*ssa.Package, error) {
	ov := map[string][]byte{}
	for virt, real := range cfg.Overlay {
		b, err := os.ReadFile(real)
		if err != nil {
			return nil, nil, err
		}
		ov[virt] = b
	}
	pc := &packages.Config{
		Mode:       packages.LoadAllSyntax,
		Dir:        cfg.Dir,
		Overlay:    ov,
		BuildFlags: []string{"-tags=" + cfg.Tags, "-mod=mod"},
		Env:        append(os.Environ(), "GOFLAGS=-mod=mod", "GOPROXY=off", "GOSUMDB=off", "GOTOOLCHAIN=local"),
	}
	initial, err := packages.Load(pc, cfg.Pkgs...)
	if err != nil {
		return nil, nil, err
	}
	var errs []string
	packages.Visit(initial, nil, func(p *packages.Package) {
		for _, e := range p.Errors {
			errs = append(errs, e.Error())
		}
	})
	if len(errs) > 0 {
		return nil, nil, fmt.Errorf("HARNESS-BUILD-FAILED: %s", strings.Join(errs, "; "))
	}
	prog, pkgs := ssautil.AllPackages(initial, ssa.InstantiateGenerics)
	prog.Build()
	return prog, pkgs, nil
}

type Task struct {
	Pkg     string `json:"pkg"`
	Harness string `json:"harness"`
	Case    int    `json:"case"`
	Name    string `json:"name,omitempty"`
}

type TaskResult struct {
	Task
	Paths        int               `json:"paths"`
	PathsDone    int               `json:"paths_done"`
	Forks        int               `json:"forks"`
	Decisions    int               `json:"decisions"`
	Incomplete   []string          `json:"incomplete,omitempty"`
	Unsupported  map[string]int    `json:"unsupported,omitempty"`
	Cex          []Cex             `json:"cex,omitempty"`
	Diags        []Cex             `json:"diags,omitempty"`
	Reached      map[string]int    `json:"reached"`
	AssertChecks int               `json:"assert_checks"`
	Samples      []PathSample      `json:"samples,omitempty"`
	Stubs        map[string]int    `json:"stubs,omitempty"`
	Notes        map[string]int    `json:"notes,omitempty"`
	Steps        int64             `json:"steps"`
	Queries      int               `json:"queries"`
	QSat         int               `json:"q_sat"`
	QUnsat       int               `json:"q_unsat"`
	QUnknown     int               `json:"q_unknown"`
	SolverMS     int64             `json:"solver_ms"`
	WallMS       int64             `json:"wall_ms"`
	Funcs        map[string]int    `json:"funcs,omitempty"`
	Error        string            `json:"error,omitempty"`
	Extra        map[string]string `json:"extra,omitempty"`
}

type Options struct {
	Jobs        int
	Solver      string
	Lim         Limits
	MaxSamples  int
	SMTLogDir   string
	TaskTimeout time.Duration
	Trace       bool
	CaseLimit   map[string]int
	StubStr     []string
	StubZero    []string
	Transparent []string // packages taken off the default opaque list for this run
	WasmFiles   map[string]string
}

type worker struct {
	ctx    *sym.Ctx
	solver *sym.Solver
	m      *Machine
	prog   *ssa.Program
	opts   Options
	initErr map[*ssa.Package]error
}

func newWorker(prog *ssa.Program, opts Options, harnessPkgs []string) (*worker, error) {
	ex, err := NewExplorer(opts.Solver)
	if err != nil {
		return nil, err
	}
	ex.Lim = opts.Lim
	m := NewMachine(prog, ex)
	for _, p := range harnessPkgs {
		m.HarnessP[p] = true
	}
	m.Trace = opts.Trace
	m.WasmFiles = opts.WasmFiles
	for _, name := range opts.Transparent {
		delete(m.opaque, name)
		// the concrete-only shortcuts of that package give way to its real code
		for k := range m.intr {
			if strings.HasPrefix(k, name+".") && !strings.HasSuffix(k, ".cloneString") {
				delete(m.intr, k)
			}
		}
	}
	for _, name := range opts.StubZero {
		name := name
		m.intr[name] = func(m *Machine, fr *frame, a []Value) Value {
			m.stub(name)
			return m.zeroResults(fr.fn)
		}
	}
	for _, name := range opts.StubStr {
		name := name
		m.intr[name] = func(m *Machine, fr *frame, a []Value) Value {
			m.stub(name)
			return Str{S: "<" + name + ">"}
		}
	}
	return &worker{ctx: ex.Ctx, solver: ex.Solver, m: m, prog: prog, opts: opts, initErr: map[*ssa.Package]error{}}, nil
}

// initPkg runs the package initialiser concretely (once per machine).
func (w *worker) initPkg(pkg *ssa.Package) (err error) {
	if w.m.inited[pkg] {
		return w.initErr[pkg]
	}
	w.m.inited[pkg] = true
	defer func() {
		if err != nil {
			w.initErr[pkg] = err
		}
	}()
	ex := w.freshExplorer()
	w.m.ex = ex
	p := &Path{ex: ex, ctx: w.ctx, observe: map[string]*sym.Term{}}
	w.m.path = p
	w.m.logging = false
	defer func() {
		if r := recover(); r != nil {
			err = fmt.Errorf("package init of %s failed: %v", pkg.Pkg.Path(), describePanic(r))
		}
	}()
	old := ex.Lim.MaxSteps
	ex.Lim.MaxSteps = 2_000_000_000
	w.m.InInit = true
	defer func() { w.m.InInit = false }()
	w.m.call(nil, pkg.Func("init"), nil, token.NoPos)
	ex.Lim.MaxSteps = old
	return nil
}

func describePanic(r interface{}) string {
	switch r := r.(type) {
	case pathAbort:
		return r.kind + ": " + r.reason
	case targetPanic:
		return "target panic: " + describeValue(r.v)
	case exitPanic:
		return "os.Exit"
	}
	return fmt.Sprintf("internal error: %v\n%s", r, trimStack(string(debug.Stack())))
}

func trimStack(s string) string {
	lines := strings.Split(s, "\n")
	var out []string
	for _, l := range lines {
		if strings.Contains(l, "verif/engine") || strings.Contains(l, "/verif/engine") {
			out = append(out, strings.TrimSpace(l))
		}
		if len(out) > 14 {
			break
		}
	}
	return strings.Join(out, " | ")
}

func describeValue(v Value) string {
	switch v := v.(type) {
	case Iface:
		if v.T == nil {
			return "nil"
		}
		return fmt.Sprintf("%v(%s)", v.T, describeValue(v.V))
	case Str:
		if v.Concrete() {
			return fmt.Sprintf("%q", v.S)
		}
		return "<symbolic string>"
	case *sym.Term:
		return v.String()
	case *Value:
		if v == nil {
			return "nil"
		}
		return "&" + describeValue(*v)
	case Struct:
		var parts []string
		for _, f := range v {
			parts = append(parts, describeValue(f))
		}
		return "{" + strings.Join(parts, ",") + "}"
	}
	return fmt.Sprintf("%T", v)
}

func (w *worker) freshExplorer() *Explorer {
	return &Explorer{Ctx: w.ctx, Solver: w.solver, Lim: w.opts.Lim, Unsupported: map[string]int{},
		cexSeen: map[string]bool{}, Reached: map[string]int{}, StubsHit: map[string]int{},
		MaxCexPerLbl: 3, Notes: map[string]int{}, Funcs: map[string]int{}}
}

func findFunc(prog *ssa.Program, pkgPath, name string) (*ssa.Package, *ssa.Function) {
	for _, p := range prog.AllPackages() {
		if p.Pkg.Path() == pkgPath {
			return p, p.Func(name)
		}
	}
	return nil, nil
}

// CountCases runs VfN_<harness> concretely; 1 if it does not exist.
func (w *worker) countCases(pkgPath, harness string) (int, error) {
	pkg, fn := findFunc(w.prog, pkgPath, "VfN_"+strings.TrimPrefix(harness, "VfH_"))
	if pkg == nil {
		return 0, fmt.Errorf("package %s not loaded", pkgPath)
	}
	if fn == nil {
		return 1, nil
	}
	if err := w.initPkg(pkg); err != nil {
		return 0, err
	}
	var n int
	var err error
	func() {
		defer func() {
			if r := recover(); r != nil {
				err = fmt.Errorf("VfN_%s: %s", harness, describePanic(r))
			}
		}()
		ex := w.freshExplorer()
		w.m.ex = ex
		w.m.path = &Path{ex: ex, ctx: w.ctx, observe: map[string]*sym.Term{}}
		w.m.logging = true
		v := w.m.call(nil, fn, nil, token.NoPos)
		w.m.rollback()
		n = int(w.m.term(v).Int64())
	}()
	return n, err
}

func (w *worker) runTask(t Task) (res TaskResult) {
	t0 := time.Now()
	res.Task = t
	res.Reached = map[string]int{}
	pkg, fn := findFunc(w.prog, t.Pkg, t.Harness)
	if fn == nil {
		res.Error = "harness function not found: " + t.Pkg + "." + t.Harness
		return
	}
	if err := w.initPkg(pkg); err != nil {
		res.Error = err.Error()
		return
	}
	ex := w.freshExplorer()
	ex.Case = t.Case
	w.m.ex = ex
	w.solver.Reset()
	q0 := w.solver.Stats
	var logf *os.File
	if w.opts.SMTLogDir != "" {
		logf, _ = os.Create(fmt.Sprintf("%s/%s_%d.smt2", w.opts.SMTLogDir, t.Harness, t.Case))
		w.solver.Log = logf
		w.solver.Reset()
	}
	deadline := time.Time{}
	if w.opts.TaskTimeout > 0 {
		deadline = t0.Add(w.opts.TaskTimeout)
	}
	ex.work = [][]Decision{nil}
	for len(ex.work) > 0 {
		if ex.Paths >= ex.Lim.MaxPaths {
			ex.Incomplete = append(ex.Incomplete, fmt.Sprintf("path budget %d exhausted with %d prefixes pending", ex.Lim.MaxPaths, len(ex.work)))
			break
		}
		if !deadline.IsZero() && time.Now().After(deadline) {
			ex.Incomplete = append(ex.Incomplete, fmt.Sprintf("task time budget exhausted with %d prefixes pending", len(ex.work)))
			break
		}
		if len(ex.Incomplete) >= 25 {
			ex.Incomplete = append(ex.Incomplete, fmt.Sprintf("task abandoned after %d incomplete paths with %d prefixes pending", len(ex.Incomplete), len(ex.work)))
			break
		}
		prefix := ex.work[len(ex.work)-1]
		ex.work = ex.work[:len(ex.work)-1]
		w.runPath(ex, fn, prefix)
	}
	if logf != nil {
		w.solver.Log = nil
		logf.Close()
	}
	res.Paths, res.PathsDone, res.Forks = ex.Paths, ex.PathsDone, ex.Forks
	res.Decisions = ex.Decisions
	res.Incomplete = dedup(ex.Incomplete)
	res.Unsupported = ex.Unsupported
	res.Cex, res.Diags = ex.Cex, ex.Diags
	res.Reached = ex.Reached
	res.AssertChecks = ex.AssertChecks
	res.Samples = ex.Samples
	res.Stubs, res.Notes = ex.StubsHit, ex.Notes
	res.Steps = ex.Steps
	res.Funcs = ex.Funcs
	s := w.solver.Stats
	res.Queries, res.QSat, res.QUnsat, res.QUnknown = s.Queries-q0.Queries, s.Sat-q0.Sat, s.Unsat-q0.Unsat, s.Unknown-q0.Unknown
	res.SolverMS = (s.SolverNS - q0.SolverNS) / 1e6
	res.WallMS = time.Since(t0).Milliseconds()
	return
}

func dedup(in []string) []string {
	seen := map[string]int{}
	var out []string
	for _, s := range in {
		if seen[s] == 0 {
			out = append(out, s)
		}
		seen[s]++
	}
	for i, s := range out {
		if seen[s] > 1 {
			out[i] = fmt.Sprintf("%s (x%d)", s, seen[s])
		}
	}
	return out
}

func (w *worker) runPath(ex *Explorer, fn *ssa.Function, prefix []Decision) {
	ex.Paths++
	w.solver.Push()
	p := &Path{ex: ex, ctx: w.ctx, prefix: prefix, observe: map[string]*sym.Term{}, id: ex.Paths}
	w.m.path = p
	w.m.logging = true
	w.m.depth = 0
	w.m.wasmInsts = nil
	completed := false
	func() {
		defer func() {
			r := recover()
			switch r := r.(type) {
			case nil:
			case pathAbort:
				switch r.kind {
				case "assume":
					p.outcome = "assume-false"
				case "done":
					p.outcome = "assert-cut"
					completed = true
				case "hang":
					p.outcome = "hang"
					completed = true
					if p.ensureModel() {
						p.recordCex("terminates-within-step-budget", p.model, r.reason)
					} else {
						ex.Incomplete = append(ex.Incomplete, "no model for the path that exceeded the termination budget")
					}
				case "unsupported":
					ex.Incomplete = append(ex.Incomplete, "unsupported: "+r.reason)
				default:
					ex.Incomplete = append(ex.Incomplete, r.reason)
				}
			case targetPanic:
				p.outcome = "panic"
				completed = true
				// an uncaught panic at the harness top level is a candidate violation
				if p.ensureModel() {
					p.recordCex("uncaught-panic", p.model, describeValue(r.v))
				} else {
					ex.Incomplete = append(ex.Incomplete, "no model for uncaught panic path")
				}
			case exitPanic:
				p.outcome = "exit"
				completed = true
			default:
				ex.Incomplete = append(ex.Incomplete, "engine: "+describePanic(r))
			}
		}()
		w.m.call(nil, fn, nil, token.NoPos)
		p.outcome = "return"
		completed = true
	}()
	ex.Steps += p.steps
	ex.Decisions += p.nDec
	if completed {
		ex.PathsDone++
		if len(ex.Samples) < w.opts.MaxSamples && p.outcome != "assert-cut" && p.outcome != "hang" {
			if p.ensureModel() {
				s := PathSample{Path: p.id, Inputs: p.inputsOf(p.model), Observe: map[string]string{}, Outcome: p.outcome}
				okAll := true
				for _, name := range p.obsOrder {
					v := p.eval(p.observe[name])
					if v == nil {
						okAll = false
						break
					}
					if v.Sort.K == sym.KBool {
						s.Observe[name] = fmt.Sprintf("%x", v.Val)
					} else if v.Sort.W > 64 {
						s.Observe[name] = fmt.Sprintf("%x", v.Big())
					} else {
						s.Observe[name] = fmt.Sprintf("%x", v.Val)
					}
				}
				if okAll {
					ex.Samples = append(ex.Samples, s)
				}
			}
		}
	}
	w.m.rollback()
	w.solver.PopTo(0)
}

// RunAll expands harnesses into per-case tasks and runs them on a worker pool.
func RunAll(prog *ssa.Program, pkgPath string, harnesses []string, onlyCase int, opts Options) ([]TaskResult, error) {
	w0, err := newWorker(prog, opts, []string{pkgPath})
	if err != nil {
		return nil, err
	}
	var tasks []Task
	for _, h := range harnesses {
		n, err := w0.countCases(pkgPath, h)
		if err != nil {
			return nil, err
		}
		if lim, ok := opts.CaseLimit[h]; ok && lim < n {
			n = lim
		}
		for k := 0; k < n; k++ {
			if onlyCase >= 0 && k != onlyCase {
				continue
			}
			tasks = append(tasks, Task{Pkg: pkgPath, Harness: h, Case: k})
		}
	}
	results := make([]TaskResult, len(tasks))
	jobs := opts.Jobs
	if jobs > len(tasks) {
		jobs = len(tasks)
	}
	if jobs < 1 {
		jobs = 1
	}
	var wg sync.WaitGroup
	ch := make(chan int, len(tasks))
	for i := range tasks {
		ch <- i
	}
	close(ch)
	var mu sync.Mutex
	var firstErr error
	for j := 0; j < jobs; j++ {
		wg.Add(1)
		go func(j int) {
			defer wg.Done()
			var w *worker
			if j == 0 {
				w = w0
			} else {
				var err error
				w, err = newWorker(prog, opts, []string{pkgPath})
				if err != nil {
					mu.Lock()
					firstErr = err
					mu.Unlock()
					return
				}
			}
			defer w.solver.Close()
			for i := range ch {
				results[i] = w.runTask(tasks[i])
			}
		}(j)
	}
	wg.Wait()
	if firstErr != nil {
		return nil, firstErr
	}
	sort.SliceStable(results, func(a, b int) bool {
		if results[a].Harness != results[b].Harness {
			return results[a].Harness < results[b].Harness
		}
		return results[a].Case < results[b].Case
	})
	return results, nil
}

func WriteJSON(path string, v interface{}) error {
	b, err := json.MarshalIndent(v, "", " ")
	if err != nil {
		return err
	}
	return os.WriteFile(path, b, 0o644)
}
