package gosym

import (
	"verif/engine/sym"
)

// math/big.Int is modelled exactly by 128-bit two's-complement bit-vectors.
// This is sound only while every value stays within (-2^127, 2^127): harnesses
// that use it apply one operation to operands of at most 64 bits (so sums,
// differences, products of two int64 and shifts of an int64 by <= 63 fit).
// A *big.Int is a pointer cell whose content is replaced by BigInt.

const bigW = 128

// Fits/Lo64, when set, are terms equivalent to "T fits int64" and "low 64 bits
// of T" in a form the solver handles well (products of two int64 operands use
// the signed-multiplication overflow predicate instead of a 128-bit multiplier;
// the equivalence noovf(a,b) <=> fits64(sext(a)*sext(b)) is a mathematical fact
// that is part of the trusted base and self-tested at 12 bits).
type BigInt struct {
	T    *sym.Term
	Fits *sym.Term
	Lo64 *sym.Term
}

func (m *Machine) bigOf(v Value) *sym.Term {
	p, ok := v.(*Value)
	if !ok || p == nil {
		m.panicRT("runtime error: invalid memory address or nil pointer dereference (*big.Int)")
	}
	switch x := (*p).(type) {
	case BigInt:
		return x.T
	case Struct:
		return m.ctx.Const128(bigW, 0, 0) // zero value of big.Int
	}
	m.path.abort("unsupported", "unexpected representation of big.Int")
	return nil
}

func (m *Machine) bigVal(v Value) BigInt {
	p, ok := v.(*Value)
	if !ok || p == nil {
		m.panicRT("runtime error: invalid memory address or nil pointer dereference (*big.Int)")
	}
	if b, ok := (*p).(BigInt); ok {
		return b
	}
	return BigInt{T: m.bigOf(v)}
}

// asSext64 returns a 64-bit term a with Sext(a) == t, if t has that shape.
func (m *Machine) asSext64(t *sym.Term) *sym.Term {
	if t.Op == sym.OSext && t.Args[0].Sort.W == 64 {
		return t.Args[0]
	}
	if t.IsConst() {
		lo := m.ctx.Const(64, t.Val)
		if m.ctx.Sext(lo, bigW-64) == t {
			return lo
		}
	}
	return nil
}

func (m *Machine) bigSet(dst Value, t *sym.Term) Value {
	p := dst.(*Value)
	if p == nil {
		m.panicRT("runtime error: nil *big.Int receiver")
	}
	m.store(p, BigInt{T: t})
	return dst
}

func (m *Machine) bigNew(t *sym.Term) Value {
	cell := new(Value)
	*cell = BigInt{T: t}
	return cell
}

func registerBig(m *Machine) {
	I := m.intr
	c := m.ctx
	fromI64 := func(t *sym.Term) *sym.Term { return c.Sext(t, bigW-64) }
	fromU64 := func(t *sym.Term) *sym.Term { return c.Zext(t, bigW-64) }
	I["math/big.NewInt"] = func(m *Machine, fr *frame, a []Value) Value {
		m.stub("math/big as 128-bit bit-vectors")
		return m.bigNew(fromI64(m.term(a[0])))
	}
	I["(*math/big.Int).SetInt64"] = func(m *Machine, fr *frame, a []Value) Value {
		return m.bigSet(a[0], fromI64(m.term(a[1])))
	}
	I["(*math/big.Int).SetUint64"] = func(m *Machine, fr *frame, a []Value) Value {
		return m.bigSet(a[0], fromU64(m.term(a[1])))
	}
	I["(*math/big.Int).Set"] = func(m *Machine, fr *frame, a []Value) Value {
		p := a[0].(*Value)
		m.store(p, m.bigVal(a[1]))
		return a[0]
	}
	bin := func(f func(x, y *sym.Term) *sym.Term) Intrinsic {
		return func(m *Machine, fr *frame, a []Value) Value {
			return m.bigSet(a[0], f(m.bigOf(a[1]), m.bigOf(a[2])))
		}
	}
	I["(*math/big.Int).Add"] = bin(c.Add)
	I["(*math/big.Int).Sub"] = bin(c.Sub)
	I["(*math/big.Int).Mul"] = func(m *Machine, fr *frame, a []Value) Value {
		x, y := m.bigOf(a[1]), m.bigOf(a[2])
		xa, ya := m.asSext64(x), m.asSext64(y)
		if xa == nil || ya == nil {
			return m.bigSet(a[0], c.Mul(x, y))
		}
		noov := c.SMulNoOvf(xa, ya)
		lo := c.Mul(xa, ya)
		t := c.Ite(noov, c.Sext(lo, bigW-64), c.Mul(x, y))
		p := a[0].(*Value)
		m.store(p, BigInt{T: t, Fits: noov, Lo64: lo})
		return a[0]
	}
	I["(*math/big.Int).And"] = bin(c.BAnd)
	I["(*math/big.Int).Or"] = bin(c.BOr)
	I["(*math/big.Int).Xor"] = bin(c.BXor)
	I["(*math/big.Int).AndNot"] = bin(func(x, y *sym.Term) *sym.Term { return c.BAnd(x, c.BNot(y)) })
	I["(*math/big.Int).Quo"] = func(m *Machine, fr *frame, a []Value) Value {
		y := m.bigOf(a[2])
		if m.path.Branch(c.Eq(y, c.Const128(bigW, 0, 0))) {
			m.panicRT("division by zero")
		}
		return m.bigSet(a[0], c.SDiv(m.bigOf(a[1]), y))
	}
	I["(*math/big.Int).Rem"] = func(m *Machine, fr *frame, a []Value) Value {
		y := m.bigOf(a[2])
		if m.path.Branch(c.Eq(y, c.Const128(bigW, 0, 0))) {
			m.panicRT("division by zero")
		}
		return m.bigSet(a[0], c.SRem(m.bigOf(a[1]), y))
	}
	I["(*math/big.Int).Neg"] = func(m *Machine, fr *frame, a []Value) Value {
		return m.bigSet(a[0], c.Neg(m.bigOf(a[1])))
	}
	I["(*math/big.Int).Not"] = func(m *Machine, fr *frame, a []Value) Value {
		return m.bigSet(a[0], c.BNot(m.bigOf(a[1])))
	}
	I["(*math/big.Int).Lsh"] = func(m *Machine, fr *frame, a []Value) Value {
		s := m.term(a[2]) // uint
		return m.bigSet(a[0], c.Shl(m.bigOf(a[1]), c.Zext(s, bigW-64)))
	}
	I["(*math/big.Int).Rsh"] = func(m *Machine, fr *frame, a []Value) Value {
		s := m.term(a[2])
		return m.bigSet(a[0], c.AShr(m.bigOf(a[1]), c.Zext(s, bigW-64)))
	}
	I["(*math/big.Int).IsInt64"] = func(m *Machine, fr *frame, a []Value) Value {
		if b := m.bigVal(a[0]); b.Fits != nil {
			return b.Fits
		}
		x := m.bigOf(a[0])
		return c.Eq(c.Sext(c.Extract(x, 63, 0), bigW-64), x)
	}
	I["(*math/big.Int).IsUint64"] = func(m *Machine, fr *frame, a []Value) Value {
		x := m.bigOf(a[0])
		return c.Eq(c.Extract(x, bigW-1, 64), c.Const(bigW-64, 0))
	}
	I["(*math/big.Int).Int64"] = func(m *Machine, fr *frame, a []Value) Value {
		if b := m.bigVal(a[0]); b.Lo64 != nil {
			return b.Lo64
		}
		return c.Extract(m.bigOf(a[0]), 63, 0)
	}
	I["(*math/big.Int).Uint64"] = func(m *Machine, fr *frame, a []Value) Value {
		// big.Int.Uint64 returns the low 64 bits of |x|
		x := m.bigOf(a[0])
		neg := c.Slt(x, c.Const128(bigW, 0, 0))
		return c.Extract(c.Ite(neg, c.Neg(x), x), 63, 0)
	}
	I["(*math/big.Int).Sign"] = func(m *Machine, fr *frame, a []Value) Value {
		x := m.bigOf(a[0])
		z := c.Const128(bigW, 0, 0)
		return c.Ite(c.Eq(x, z), c.Const(64, 0), c.Ite(c.Slt(x, z), c.Const(64, ^uint64(0)), c.Const(64, 1)))
	}
	I["(*math/big.Int).Cmp"] = func(m *Machine, fr *frame, a []Value) Value {
		x, y := m.bigOf(a[0]), m.bigOf(a[1])
		return c.Ite(c.Eq(x, y), c.Const(64, 0), c.Ite(c.Slt(x, y), c.Const(64, ^uint64(0)), c.Const(64, 1)))
	}
	I["(*math/big.Int).BitLen"] = func(m *Machine, fr *frame, a []Value) Value {
		x := m.bigOf(a[0])
		neg := c.Slt(x, c.Const128(bigW, 0, 0))
		ax := c.Ite(neg, c.Neg(x), x)
		r := c.Const(64, 0)
		for i := 0; i < bigW; i++ {
			r = c.Ite(c.Eq(c.Extract(ax, i, i), c.Const(1, 1)), c.Const(64, uint64(i+1)), r)
		}
		return r
	}
	I["(*math/big.Int).String"] = func(m *Machine, fr *frame, a []Value) Value {
		return Str{S: "<big.Int>"}
	}
}
