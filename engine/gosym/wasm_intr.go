package gosym

// Harness API for calling into WebAssembly modules from Go harnesses
// (intercepted by name; the native implementations run the same module on the
// vendored wazero engine, so replays go through the real runtime):
//
//	vfWasmLoad(name string) int
//	vfWasmCall(h int, fn string, args ...uint64) (results []uint64, trapped bool)
//	vfWasmMemRead(h int, addr uint32, n int) uint64
//	vfWasmMemWrite(h int, addr uint32, n int, v uint64)
//	vfWasmGlobal(h int, name string) uint64
//	vfWasmSetGlobal(h int, name string, v uint64)
//	vfWasmPages(h int) uint32
//	vfWasmHostCalls(h int) int            number of host-import calls so far
//	vfWasmHostCall(h, i int) (name string, a0, a1 uint64)
//	vfWasmExitCode(h int) (code uint32, exited bool)

import (
	"fmt"
	"os"
	"sort"

	"verif/engine/sym"
)

func (m *Machine) wasmModule(name string) *wasmModule {
	if mod, ok := m.wasmMods[name]; ok {
		return mod
	}
	path, ok := m.WasmFiles[name]
	if !ok {
		m.path.abort("unsupported", "wasm module not provided: "+name)
	}
	b, err := os.ReadFile(path)
	if err != nil {
		m.path.abort("unsupported", "wasm module unreadable: "+err.Error())
	}
	mod, err := parseWasm(b)
	if err != nil {
		m.path.abort("unsupported", "wasm module "+name+": "+err.Error())
	}
	if m.wasmMods == nil {
		m.wasmMods = map[string]*wasmModule{}
	}
	m.wasmMods[name] = mod
	return mod
}

func (m *Machine) wasmInstOf(v Value) *wasmInst {
	h := m.asInt(v, "wasm handle")
	if h < 0 || h >= len(m.wasmInsts) {
		m.path.abort("unsupported", "bad wasm handle")
	}
	return m.wasmInsts[h]
}

func registerWasm(m *Machine) {
	I := m.intr
	c := m.ctx
	I["vf:vfWasmLoad"] = func(m *Machine, fr *frame, a []Value) Value {
		name := m.argStr(a[0])
		in := m.newWasmInst(name, m.wasmModule(name))
		m.wasmInsts = append(m.wasmInsts, in)
		m.ex.Funcs["wasm:"+name]++
		if in.mod.Start >= 0 {
			m.wasmRun(in, uint32(in.mod.Start), nil)
		}
		return c.Const(64, uint64(len(m.wasmInsts)-1))
	}
	I["vf:vfWasmCall"] = func(m *Machine, fr *frame, a []Value) Value {
		in := m.wasmInstOf(a[0])
		fn := m.argStr(a[1])
		idx, ok := in.exportFunc(fn)
		if !ok {
			m.path.abort("unsupported", "wasm function not found: "+fn)
		}
		m.ex.Funcs["wasm:"+in.name+"."+fn]++
		ft := in.funcType(idx)
		raw := variadic(a[2])
		if len(raw) != len(ft.Params) {
			m.path.abort("unsupported", fmt.Sprintf("wasm call %s: %d arguments for %d parameters", fn, len(raw), len(ft.Params)))
		}
		args := make([]*sym.Term, len(raw))
		for i, v := range raw {
			args[i] = c.Resize(m.term(v), m.wasmBits(ft.Params[i]), false)
		}
		res, trapped := m.wasmRun(in, idx, args)
		out := make([]Value, len(res))
		for i, r := range res {
			out[i] = c.Resize(r, 64, false)
		}
		if trapped {
			out = []Value{}
		}
		return Tuple{out, c.Bool(trapped)}
	}
	I["vf:vfWasmMemRead"] = func(m *Machine, fr *frame, a []Value) Value {
		in := m.wasmInstOf(a[0])
		n := m.asInt(a[2], "size")
		addr := in.effAddr(m.term(a[1]), 0, n)
		return c.Resize(in.load(addr, n), 64, false)
	}
	I["vf:vfWasmMemWrite"] = func(m *Machine, fr *frame, a []Value) Value {
		in := m.wasmInstOf(a[0])
		n := m.asInt(a[2], "size")
		addr := in.effAddr(m.term(a[1]), 0, n)
		in.store(addr, n, m.term(a[3]))
		return nil
	}
	I["vf:vfWasmGlobal"] = func(m *Machine, fr *frame, a []Value) Value {
		in := m.wasmInstOf(a[0])
		idx, ok := in.exportGlobal(m.argStr(a[1]))
		if !ok {
			m.path.abort("unsupported", "wasm global not exported: "+m.argStr(a[1]))
		}
		return c.Resize(in.globals[idx], 64, false)
	}
	I["vf:vfWasmSetGlobal"] = func(m *Machine, fr *frame, a []Value) Value {
		in := m.wasmInstOf(a[0])
		idx, ok := in.exportGlobal(m.argStr(a[1]))
		if !ok {
			m.path.abort("unsupported", "wasm global not exported: "+m.argStr(a[1]))
		}
		in.globals[idx] = c.Resize(m.term(a[2]), in.globals[idx].Sort.W, false)
		return nil
	}
	I["vf:vfWasmPages"] = func(m *Machine, fr *frame, a []Value) Value {
		return c.Const(32, uint64(m.wasmInstOf(a[0]).pages))
	}
	I["vf:vfWasmHostCalls"] = func(m *Machine, fr *frame, a []Value) Value {
		return c.Const(64, uint64(len(m.wasmInstOf(a[0]).calls)))
	}
	I["vf:vfWasmHostCall"] = func(m *Machine, fr *frame, a []Value) Value {
		in := m.wasmInstOf(a[0])
		i := m.asInt(a[1], "host call index")
		if i < 0 || i >= len(in.calls) {
			m.panicRT("host call index out of range")
		}
		hc := in.calls[i]
		arg := func(k int) Value {
			if k < len(hc.Args) {
				return c.Resize(hc.Args[k], 64, false)
			}
			return c.Const(64, 0)
		}
		return Tuple{Str{S: hc.Name}, arg(0), arg(1)}
	}
	// vfWasmExports(h) []string: exported functions sorted by name, each as "name:params:results" with
	// one letter per value type (i I f F)
	I["vf:vfWasmExports"] = func(m *Machine, fr *frame, a []Value) Value {
		in := m.wasmInstOf(a[0])
		out := []Value{}
		var sigs []string
		tyc := map[byte]byte{0x7F: 'i', 0x7E: 'I', 0x7D: 'f', 0x7C: 'F'}
		for _, e := range in.mod.Exports {
			if e.Kind != 0 {
				continue
			}
			ft := in.funcType(e.Idx)
			sig := e.Name + ":"
			for _, t := range ft.Params {
				sig += string(tyc[t])
			}
			sig += ":"
			for _, t := range ft.Results {
				sig += string(tyc[t])
			}
			if int(e.Idx) < in.mod.nImportFuncs {
				sig += ":imported"
			}
			sigs = append(sigs, sig)
		}
		sort.Strings(sigs)
		for _, sg := range sigs {
			out = append(out, Str{S: sg})
		}
		return out
	}
	I["vf:vfWasmExitCode"] = func(m *Machine, fr *frame, a []Value) Value {
		in := m.wasmInstOf(a[0])
		if !in.exited {
			return Tuple{c.Const(32, 0), c.False}
		}
		return Tuple{c.Resize(in.exitCode, 32, false), c.True}
	}
}

// wasmRun invokes a function and converts a trap into a result.
func (m *Machine) wasmRun(in *wasmInst, idx uint32, args []*sym.Term) (res []*sym.Term, trapped bool) {
	depth := in.depth
	defer func() {
		if r := recover(); r != nil {
			if _, ok := r.(wasmTrap); ok {
				in.depth = depth
				res, trapped = nil, true
				return
			}
			panic(r)
		}
	}()
	return in.invoke(idx, args), false
}
