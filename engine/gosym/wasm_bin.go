package gosym

// A small reader for the WebAssembly binary format (MVP + sign-extension,
// saturating truncation, bulk memory copy/fill, multi-value), independent of
// the code under test: the modules it reads are produced by Wa's own
// wat2wasm from the current tree.

import (
	"encoding/binary"
	"fmt"
	"math"
)

type wasmFuncType struct {
	Params, Results []byte // value types 0x7F i32, 0x7E i64, 0x7D f32, 0x7C f64
}

type wasmImport struct {
	Module, Name string
	Kind         byte
	TypeIdx      uint32 // for functions
	GlobalType   byte
	GlobalMut    bool
}

type wasmGlobal struct {
	Type    byte
	Mutable bool
	Init    []byte // constant expression
}

type wasmExport struct {
	Name string
	Kind byte
	Idx  uint32
}

type wasmCode struct {
	Locals []byte // expanded local types (without params)
	Body   []byte
	Instrs []wasmInstr // decoded lazily
}

type wasmElem struct {
	Offset []byte
	Funcs  []uint32
}

type wasmData struct {
	Offset []byte
	Bytes  []byte
	Passive bool
}

type wasmModule struct {
	Types     []wasmFuncType
	Imports   []wasmImport
	FuncTypes []uint32 // type index per defined function
	Tables    []uint32 // min size
	MemMin    uint32
	MemMax    uint32
	HasMem    bool
	HasMemMax bool
	Globals   []wasmGlobal
	Exports   []wasmExport
	Start     int64
	Elems     []wasmElem
	Codes     []wasmCode
	Datas     []wasmData
	FuncNames map[uint32]string

	nImportFuncs   int
	nImportGlobals int
	importFuncs    []wasmImport
	importGlobals  []wasmImport
}

type wasmReader struct {
	b   []byte
	pos int
}

func (r *wasmReader) byte() byte {
	if r.pos >= len(r.b) {
		panic(fmt.Errorf("wasm: unexpected end of input at %d", r.pos))
	}
	v := r.b[r.pos]
	r.pos++
	return v
}

func (r *wasmReader) u32() uint32 {
	var v uint64
	var shift uint
	for {
		b := r.byte()
		v |= uint64(b&0x7f) << shift
		if b&0x80 == 0 {
			break
		}
		shift += 7
		if shift > 35 {
			panic(fmt.Errorf("wasm: bad u32 leb"))
		}
	}
	return uint32(v)
}

func (r *wasmReader) s64(bits uint) int64 {
	var v int64
	var shift uint
	for {
		b := r.byte()
		v |= int64(b&0x7f) << shift
		shift += 7
		if b&0x80 == 0 {
			if shift < 64 && b&0x40 != 0 {
				v |= -1 << shift
			}
			break
		}
		if shift > bits+7 {
			panic(fmt.Errorf("wasm: bad sleb"))
		}
	}
	return v
}

func (r *wasmReader) bytes(n int) []byte {
	if r.pos+n > len(r.b) {
		panic(fmt.Errorf("wasm: unexpected end of input"))
	}
	v := r.b[r.pos : r.pos+n]
	r.pos += n
	return v
}

func (r *wasmReader) name() string { return string(r.bytes(int(r.u32()))) }

func (r *wasmReader) constExpr() []byte {
	start := r.pos
	for {
		op := r.byte()
		switch op {
		case 0x0B:
			return r.b[start:r.pos]
		case 0x41:
			r.s64(32)
		case 0x42:
			r.s64(64)
		case 0x43:
			r.bytes(4)
		case 0x44:
			r.bytes(8)
		case 0x23:
			r.u32()
		default:
			panic(fmt.Errorf("wasm: unsupported opcode %#x in constant expression", op))
		}
	}
}

func parseWasm(b []byte) (m *wasmModule, err error) {
	defer func() {
		if r := recover(); r != nil {
			if e, ok := r.(error); ok {
				err = e
				return
			}
			panic(r)
		}
	}()
	if len(b) < 8 || string(b[:4]) != "\x00asm" || binary.LittleEndian.Uint32(b[4:8]) != 1 {
		return nil, fmt.Errorf("wasm: bad magic/version")
	}
	m = &wasmModule{Start: -1, FuncNames: map[uint32]string{}}
	r := &wasmReader{b: b, pos: 8}
	for r.pos < len(b) {
		id := r.byte()
		size := int(r.u32())
		sec := &wasmReader{b: b[:r.pos+size], pos: r.pos}
		r.pos += size
		switch id {
		case 0:
			nm := sec.name()
			if nm == "name" {
				for sec.pos < len(sec.b) {
					sub := sec.byte()
					n := int(sec.u32())
					end := sec.pos + n
					if sub == 1 {
						cnt := int(sec.u32())
						for i := 0; i < cnt; i++ {
							idx := sec.u32()
							m.FuncNames[idx] = sec.name()
						}
					}
					sec.pos = end
				}
			}
		case 1:
			n := int(sec.u32())
			for i := 0; i < n; i++ {
				if sec.byte() != 0x60 {
					panic(fmt.Errorf("wasm: bad func type"))
				}
				var ft wasmFuncType
				ft.Params = append([]byte{}, sec.bytes(int(sec.u32()))...)
				ft.Results = append([]byte{}, sec.bytes(int(sec.u32()))...)
				m.Types = append(m.Types, ft)
			}
		case 2:
			n := int(sec.u32())
			for i := 0; i < n; i++ {
				im := wasmImport{Module: sec.name(), Name: sec.name(), Kind: sec.byte()}
				switch im.Kind {
				case 0:
					im.TypeIdx = sec.u32()
					m.importFuncs = append(m.importFuncs, im)
				case 1:
					sec.byte()
					if sec.byte()&1 != 0 {
						sec.u32()
					}
					sec.u32()
				case 2:
					fl := sec.byte()
					m.HasMem = true
					m.MemMin = sec.u32()
					if fl&1 != 0 {
						m.MemMax, m.HasMemMax = sec.u32(), true
					}
				case 3:
					im.GlobalType = sec.byte()
					im.GlobalMut = sec.byte() == 1
					m.importGlobals = append(m.importGlobals, im)
				}
				m.Imports = append(m.Imports, im)
			}
			m.nImportFuncs, m.nImportGlobals = len(m.importFuncs), len(m.importGlobals)
		case 3:
			n := int(sec.u32())
			for i := 0; i < n; i++ {
				m.FuncTypes = append(m.FuncTypes, sec.u32())
			}
		case 4:
			n := int(sec.u32())
			for i := 0; i < n; i++ {
				sec.byte()
				fl := sec.byte()
				m.Tables = append(m.Tables, sec.u32())
				if fl&1 != 0 {
					sec.u32()
				}
			}
		case 5:
			n := int(sec.u32())
			for i := 0; i < n; i++ {
				fl := sec.byte()
				m.HasMem = true
				m.MemMin = sec.u32()
				if fl&1 != 0 {
					m.MemMax, m.HasMemMax = sec.u32(), true
				}
			}
		case 6:
			n := int(sec.u32())
			for i := 0; i < n; i++ {
				g := wasmGlobal{Type: sec.byte()}
				g.Mutable = sec.byte() == 1
				g.Init = sec.constExpr()
				m.Globals = append(m.Globals, g)
			}
		case 7:
			n := int(sec.u32())
			for i := 0; i < n; i++ {
				m.Exports = append(m.Exports, wasmExport{Name: sec.name(), Kind: sec.byte(), Idx: sec.u32()})
			}
		case 8:
			m.Start = int64(sec.u32())
		case 9:
			n := int(sec.u32())
			for i := 0; i < n; i++ {
				flag := sec.u32()
				var e wasmElem
				switch flag {
				case 0:
					e.Offset = sec.constExpr()
				case 2:
					sec.u32()
					e.Offset = sec.constExpr()
					sec.byte()
				default:
					panic(fmt.Errorf("wasm: unsupported element segment flag %d", flag))
				}
				cnt := int(sec.u32())
				for k := 0; k < cnt; k++ {
					e.Funcs = append(e.Funcs, sec.u32())
				}
				m.Elems = append(m.Elems, e)
			}
		case 10:
			n := int(sec.u32())
			for i := 0; i < n; i++ {
				size := int(sec.u32())
				body := &wasmReader{b: sec.b[:sec.pos+size], pos: sec.pos}
				sec.pos += size
				var c wasmCode
				groups := int(body.u32())
				for g := 0; g < groups; g++ {
					cnt := int(body.u32())
					t := body.byte()
					if cnt > 1<<20 {
						panic(fmt.Errorf("wasm: too many locals"))
					}
					for k := 0; k < cnt; k++ {
						c.Locals = append(c.Locals, t)
					}
				}
				c.Body = body.b[body.pos:]
				m.Codes = append(m.Codes, c)
			}
		case 11:
			n := int(sec.u32())
			for i := 0; i < n; i++ {
				flag := sec.u32()
				var d wasmData
				switch flag {
				case 0:
					d.Offset = sec.constExpr()
				case 1:
					d.Passive = true
				case 2:
					sec.u32()
					d.Offset = sec.constExpr()
				}
				d.Bytes = sec.bytes(int(sec.u32()))
				m.Datas = append(m.Datas, d)
			}
		case 12:
			sec.u32()
		}
	}
	if len(m.FuncTypes) != len(m.Codes) {
		return nil, fmt.Errorf("wasm: function and code section lengths differ")
	}
	return m, nil
}

// ----- instruction decoding -----

type wasmInstr struct {
	Op    uint16 // opcode; 0xFC-prefixed ops are 0xFC00 | sub
	A, B  uint64 // immediates
	Tbl   []uint32
	Else  int // for if: index of else (or -1); for block/loop/if: End = index of matching end
	End   int
	Arity int // block result count
	PArity int // block parameter count
}

func (m *wasmModule) blockArity(bt int64) (params, results int) {
	switch {
	case bt == -64: // 0x40 empty
		return 0, 0
	case bt < 0:
		return 0, 1
	}
	t := m.Types[bt]
	return len(t.Params), len(t.Results)
}

func (m *wasmModule) decode(c *wasmCode) error {
	if c.Instrs != nil {
		return nil
	}
	r := &wasmReader{b: c.Body}
	var ins []wasmInstr
	var stack []int
	var derr error
	func() {
		defer func() {
			if e := recover(); e != nil {
				if er, ok := e.(error); ok {
					derr = er
					return
				}
				panic(e)
			}
		}()
		for r.pos < len(r.b) {
			op := r.byte()
			in := wasmInstr{Op: uint16(op), Else: -1}
			switch {
			case op == 0x02 || op == 0x03 || op == 0x04:
				bt := r.s64(33)
				in.PArity, in.Arity = m.blockArity(bt)
				stack = append(stack, len(ins))
			case op == 0x05:
				ins[stack[len(stack)-1]].Else = len(ins)
			case op == 0x0B:
				if len(stack) > 0 {
					ins[stack[len(stack)-1]].End = len(ins)
					if e := ins[stack[len(stack)-1]].Else; e >= 0 {
						ins[e].End = len(ins)
					}
					stack = stack[:len(stack)-1]
				}
			case op == 0x0C || op == 0x0D:
				in.A = uint64(r.u32())
			case op == 0x0E:
				n := int(r.u32())
				for i := 0; i <= n; i++ {
					in.Tbl = append(in.Tbl, r.u32())
				}
			case op == 0x10:
				in.A = uint64(r.u32())
			case op == 0x11:
				in.A = uint64(r.u32())
				in.B = uint64(r.u32())
			case op == 0x1C:
				n := int(r.u32())
				r.bytes(n)
			case op >= 0x20 && op <= 0x26:
				in.A = uint64(r.u32())
			case op >= 0x28 && op <= 0x3E:
				in.A = uint64(r.u32()) // align
				in.B = uint64(r.u32()) // offset
			case op == 0x3F || op == 0x40:
				r.byte()
			case op == 0x41:
				in.A = uint64(uint32(int32(r.s64(32))))
			case op == 0x42:
				in.A = uint64(r.s64(64))
			case op == 0x43:
				in.A = uint64(binary.LittleEndian.Uint32(r.bytes(4)))
			case op == 0x44:
				in.A = binary.LittleEndian.Uint64(r.bytes(8))
			case op == 0xFC:
				sub := r.u32()
				in.Op = 0xFC00 | uint16(sub)
				switch sub {
				case 8:
					in.A = uint64(r.u32())
					r.byte()
				case 9:
					in.A = uint64(r.u32())
				case 10:
					r.byte()
					r.byte()
				case 11:
					r.byte()
				}
			}
			ins = append(ins, in)
		}
	}()
	if derr != nil {
		return derr
	}
	c.Instrs = ins
	return nil
}

var _ = math.Float32bits
