package gosym

// Symbolic interpreter for WebAssembly (E2). Operand values are sym terms:
// i32/i64 as bit-vectors, f32/f64 as their IEEE bit patterns (bit-vectors of
// width 32/64) that are reinterpreted as FP terms only inside FP operations.
// Branches, traps and symbolic addresses go through the same Path machinery
// as the Go executor, so a Go harness can call into a module and compare.

import (
	"encoding/binary"
	"fmt"
	"math"

	"verif/engine/sym"
)

type wasmTrap struct{ msg string }

type wasmHostCall struct {
	Name string
	Args []*sym.Term
}

type wasmInst struct {
	mod      *wasmModule
	m        *Machine
	name     string
	base     []byte               // initial image (data segments); never written
	mem      map[uint32]*sym.Term // bytes written on this path
	pages    uint32
	maxPages uint32
	globals  []*sym.Term
	table    []int64
	calls    []wasmHostCall
	exited   bool
	exitCode *sym.Term
	depth    int
	steps    int64
	allocLog []wasmHostCall // calls of functions registered as observed
	observe  map[uint32]string
}

const wasmPage = 65536

func (m *Machine) wasmBits(t byte) int {
	switch t {
	case 0x7F, 0x7D:
		return 32
	case 0x7E, 0x7C:
		return 64
	}
	m.path.abort("unsupported", fmt.Sprintf("wasm value type %#x", t))
	return 0
}

func (in *wasmInst) evalConst(expr []byte) *sym.Term {
	c := in.m.ctx
	r := &wasmReader{b: expr}
	op := r.byte()
	switch op {
	case 0x41:
		return c.Const(32, uint64(uint32(int32(r.s64(32)))))
	case 0x42:
		return c.Const(64, uint64(r.s64(64)))
	case 0x43:
		return c.Const(32, uint64(binary.LittleEndian.Uint32(r.bytes(4))))
	case 0x44:
		return c.Const(64, binary.LittleEndian.Uint64(r.bytes(8)))
	case 0x23:
		return in.globals[r.u32()]
	}
	panic(fmt.Sprintf("wasm: const expr opcode %#x", op))
}

func (m *Machine) newWasmInst(name string, mod *wasmModule) *wasmInst {
	in := &wasmInst{mod: mod, m: m, name: name, mem: map[uint32]*sym.Term{}, observe: map[uint32]string{}}
	c := m.ctx
	for _, g := range mod.importGlobals {
		in.globals = append(in.globals, c.Const(m.wasmBits(g.GlobalType), 0))
	}
	for _, g := range mod.Globals {
		in.globals = append(in.globals, in.evalConst(g.Init))
	}
	in.pages = mod.MemMin
	in.maxPages = 65536
	if mod.HasMemMax {
		in.maxPages = mod.MemMax
	}
	size := uint64(in.pages) * wasmPage
	in.base = make([]byte, 0)
	for _, d := range mod.Datas {
		if d.Passive {
			continue
		}
		off := in.evalConst(d.Offset)
		if !off.IsConst() {
			m.path.abort("unsupported", "wasm data segment with non-constant offset")
		}
		end := off.Val + uint64(len(d.Bytes))
		if end > size {
			m.path.abort("unsupported", "wasm data segment outside memory")
		}
		if uint64(len(in.base)) < end {
			in.base = append(in.base, make([]byte, end-uint64(len(in.base)))...)
		}
		copy(in.base[off.Val:], d.Bytes)
	}
	if len(mod.Tables) > 0 {
		in.table = make([]int64, mod.Tables[0])
		for i := range in.table {
			in.table[i] = -1
		}
		for _, e := range mod.Elems {
			off := in.evalConst(e.Offset)
			for i, f := range e.Funcs {
				k := int(off.Val) + i
				if k < len(in.table) {
					in.table[k] = int64(f)
				}
			}
		}
	}
	return in
}

func (in *wasmInst) trap(msg string) { panic(wasmTrap{msg}) }

func (in *wasmInst) funcType(fidx uint32) wasmFuncType {
	if int(fidx) < in.mod.nImportFuncs {
		return in.mod.Types[in.mod.importFuncs[fidx].TypeIdx]
	}
	return in.mod.Types[in.mod.FuncTypes[int(fidx)-in.mod.nImportFuncs]]
}

func (in *wasmInst) exportFunc(name string) (uint32, bool) {
	for _, e := range in.mod.Exports {
		if e.Kind == 0 && e.Name == name {
			return e.Idx, true
		}
	}
	// fall back to the debug names (non-exported helpers)
	for idx, n := range in.mod.FuncNames {
		if n == name || n == "$"+name {
			return idx, true
		}
	}
	return 0, false
}

func (in *wasmInst) exportGlobal(name string) (uint32, bool) {
	for _, e := range in.mod.Exports {
		if e.Kind == 3 && e.Name == name {
			return e.Idx, true
		}
	}
	return 0, false
}

// ----- memory -----

func (in *wasmInst) loadByte(a uint32) *sym.Term {
	if t, ok := in.mem[a]; ok {
		return t
	}
	if int(a) < len(in.base) {
		return in.m.ctx.Const(8, uint64(in.base[a]))
	}
	return in.m.ctx.Const(8, 0)
}

// effAddr resolves base+offset to a concrete address (forking over the
// feasible values of a symbolic base) and checks bounds.
func (in *wasmInst) effAddr(base *sym.Term, off uint64, n int) uint32 {
	c := in.m.ctx
	ea := c.Add(c.Zext(base, 1), c.Const(33, off))
	var a uint64
	if ea.IsConst() {
		a = ea.Val
	} else {
		// out-of-bounds first: one branch instead of enumerating wild addresses
		lim := uint64(in.pages)*wasmPage - uint64(n)
		if uint64(in.pages)*wasmPage < uint64(n) || !in.m.path.Branch(c.Ule(ea, c.Const(33, lim))) {
			in.trap("out of bounds memory access")
		}
		a = in.m.path.Concretize(ea, "symbolic wasm memory address")
	}
	if a+uint64(n) > uint64(in.pages)*wasmPage {
		in.trap("out of bounds memory access")
	}
	return uint32(a)
}

// tableLoad handles a load whose symbolic address is confined, by the known bits and interval of the
// address term alone, to a small in-bounds set of addresses (a table lookup): the value is an if-then-else
// chain over those addresses instead of one path per address.  nil when that does not apply.
func (in *wasmInst) tableLoad(base *sym.Term, off uint64, n int) *sym.Term {
	if base.IsConst() {
		return nil
	}
	c := in.m.ctx
	ea := c.Add(c.Zext(base, 1), c.Const(33, off))
	if ea.IsConst() {
		return nil
	}
	lo, hi := ea.URange()
	memEnd := uint64(in.pages) * wasmPage
	if hi < lo || hi-lo > 8192 || hi+uint64(n) > memEnd {
		// the term alone does not confine the address: ask the solver whether the path condition confines it
		// to a window around one feasible value (an index already compared with a table length)
		p := in.m.path
		if memEnd < uint64(n)+1 || !p.ensureModel() {
			return nil
		}
		mv := p.eval(ea)
		if mv == nil || !mv.IsConst() {
			return nil
		}
		ok := false
		for _, half := range []uint64{256, 1024} {
			lo, hi = 0, mv.Val+half
			if mv.Val > half {
				lo = mv.Val - half
			}
			if hi > memEnd-uint64(n) {
				hi = memEnd - uint64(n)
			}
			if lo > hi {
				return nil
			}
			outside := c.Or(c.Ult(ea, c.Const(33, lo)), c.Ult(c.Const(33, hi), ea))
			if f, known := p.feasible(outside); known && !f {
				ok = true
				break
			}
		}
		if !ok {
			return nil
		}
	}
	kz, ko := ea.Known()
	tz := 0
	for tz < 12 && (kz|ko)&(1<<uint(tz)) != 0 {
		tz++
	}
	stride := uint64(1) << uint(tz)
	low := ko & (stride - 1)
	first := lo&^(stride-1) | low
	if first < lo {
		first += stride
	}
	if first > hi {
		return nil
	}
	count := (hi-first)/stride + 1
	if count > 2050 {
		return nil
	}
	last := first + (count-1)*stride
	res := in.load(uint32(last), n)
	for k := count - 1; k > 0; k-- {
		a := first + (k-1)*stride
		res = c.Ite(c.Eq(ea, c.Const(33, a)), in.load(uint32(a), n), res)
	}
	return res
}

func (in *wasmInst) load(a uint32, n int) *sym.Term {
	c := in.m.ctx
	r := in.loadByte(a)
	for i := 1; i < n; i++ {
		r = c.Concat(in.loadByte(a+uint32(i)), r)
	}
	return r
}

func (in *wasmInst) store(a uint32, n int, v *sym.Term) {
	c := in.m.ctx
	for i := 0; i < n; i++ {
		in.mem[a+uint32(i)] = c.Extract(v, 8*i+7, 8*i)
	}
}

// ----- execution -----

type wasmLabel struct {
	isLoop bool
	start  int // index of the block instruction
	end    int
	arity  int // values carried by a branch to this label
	height int
}

func (in *wasmInst) invoke(fidx uint32, args []*sym.Term) []*sym.Term {
	m := in.m
	c := m.ctx
	if name, ok := in.observe[fidx]; ok {
		in.allocLog = append(in.allocLog, wasmHostCall{Name: name, Args: append([]*sym.Term{}, args...)})
	}
	if int(fidx) < in.mod.nImportFuncs {
		im := in.mod.importFuncs[fidx]
		ft := in.mod.Types[im.TypeIdx]
		in.calls = append(in.calls, wasmHostCall{Name: im.Module + "." + im.Name, Args: append([]*sym.Term{}, args...)})
		if im.Name == "proc_exit" {
			in.exited = true
			in.exitCode = args[0]
			panic(wasmTrap{"exit"})
		}
		res := make([]*sym.Term, len(ft.Results))
		for i, t := range ft.Results {
			res[i] = c.Const(m.wasmBits(t), 0)
		}
		return res
	}
	code := &in.mod.Codes[int(fidx)-in.mod.nImportFuncs]
	if err := in.mod.decode(code); err != nil {
		m.path.abort("unsupported", err.Error())
	}
	ft := in.funcType(fidx)
	in.depth++
	if in.depth > 400 {
		m.path.abort("incomplete", "wasm call depth exceeded")
	}
	defer func() { in.depth-- }()
	locals := make([]*sym.Term, len(ft.Params)+len(code.Locals))
	copy(locals, args)
	for i, t := range code.Locals {
		locals[len(ft.Params)+i] = c.Const(m.wasmBits(t), 0)
	}
	ins := code.Instrs
	var st []*sym.Term
	var labels []wasmLabel
	push := func(t *sym.Term) { st = append(st, t) }
	pop := func() *sym.Term {
		t := st[len(st)-1]
		st = st[:len(st)-1]
		return t
	}
	k32 := func(v uint64) *sym.Term { return c.Const(32, v) }
	b2i := func(b *sym.Term) *sym.Term { return c.BoolToBV(b, 32) }
	// branch to label depth n; returns the new pc, or -1 for function return
	branch := func(n int) int {
		if n >= len(labels) {
			return -1
		}
		l := labels[len(labels)-1-n]
		vals := append([]*sym.Term{}, st[len(st)-l.arity:]...)
		st = append(st[:l.height], vals...)
		if l.isLoop {
			labels = labels[:len(labels)-n]
			return l.start + 1
		}
		labels = labels[:len(labels)-1-n]
		return l.end + 1
	}
	fp := func(t *sym.Term) *sym.Term { return c.FFromBits(t) }
	bits := func(t *sym.Term) *sym.Term { return c.FToBits(t, m.path.assume) }
	pc := 0
	for pc < len(ins) {
		m.path.steps++
		if m.path.steps > m.ex.Lim.MaxSteps {
			m.path.abort("incomplete", "step budget exceeded (wasm)")
		}
		i := &ins[pc]
		pc++
		op := i.Op
		switch {
		case op == 0x00:
			in.trap("unreachable")
		case op == 0x01:
		case op == 0x02, op == 0x03:
			labels = append(labels, wasmLabel{isLoop: op == 0x03, start: pc - 1, end: i.End, arity: map[bool]int{true: i.PArity, false: i.Arity}[op == 0x03], height: len(st) - i.PArity})
		case op == 0x04:
			cond := pop()
			labels = append(labels, wasmLabel{start: pc - 1, end: i.End, arity: i.Arity, height: len(st) - i.PArity})
			if !m.path.Branch(c.Not(c.Eq(cond, k32(0)))) {
				if i.Else >= 0 {
					pc = i.Else + 1
				} else {
					pc = i.End + 1
					labels = labels[:len(labels)-1]
				}
			}
		case op == 0x05: // else reached from the then-branch: skip to end
			l := labels[len(labels)-1]
			pc = l.end + 1
			labels = labels[:len(labels)-1]
		case op == 0x0B:
			if len(labels) > 0 {
				labels = labels[:len(labels)-1]
			}
		case op == 0x0C:
			if pc = branch(int(i.A)); pc < 0 {
				return st[len(st)-len(ft.Results):]
			}
		case op == 0x0D:
			cond := pop()
			if m.path.Branch(c.Not(c.Eq(cond, k32(0)))) {
				if pc = branch(int(i.A)); pc < 0 {
					return st[len(st)-len(ft.Results):]
				}
			}
		case op == 0x0E:
			idx := pop()
			var k uint64
			n := uint64(len(i.Tbl) - 1)
			if idx.IsConst() {
				k = idx.Val
			} else if m.path.Branch(c.Ult(idx, k32(n))) {
				k = m.path.Concretize(idx, "br_table index")
			} else {
				k = n
			}
			if k > n {
				k = n
			}
			if pc = branch(int(i.Tbl[k])); pc < 0 {
				return st[len(st)-len(ft.Results):]
			}
		case op == 0x0F:
			return st[len(st)-len(ft.Results):]
		case op == 0x10:
			t := in.funcType(uint32(i.A))
			args := append([]*sym.Term{}, st[len(st)-len(t.Params):]...)
			st = st[:len(st)-len(t.Params)]
			st = append(st, in.invoke(uint32(i.A), args)...)
		case op == 0x11:
			idx := pop()
			if !idx.IsConst() && !m.path.Branch(c.Ult(idx, k32(uint64(len(in.table))))) {
				in.trap("undefined element")
			}
			k := m.path.Concretize(idx, "call_indirect index")
			if k >= uint64(len(in.table)) {
				in.trap("undefined element")
			}
			f := in.table[k]
			if f < 0 {
				in.trap("uninitialized element")
			}
			want := in.mod.Types[i.A]
			got := in.funcType(uint32(f))
			if string(want.Params) != string(got.Params) || string(want.Results) != string(got.Results) {
				in.trap("indirect call type mismatch")
			}
			args := append([]*sym.Term{}, st[len(st)-len(want.Params):]...)
			st = st[:len(st)-len(want.Params)]
			st = append(st, in.invoke(uint32(f), args)...)
		case op == 0x1A:
			pop()
		case op == 0x1B, op == 0x1C:
			cond, b, a := pop(), pop(), pop()
			push(c.Ite(c.Not(c.Eq(cond, k32(0))), a, b))
		case op == 0x20:
			push(locals[i.A])
		case op == 0x21:
			locals[i.A] = pop()
		case op == 0x22:
			locals[i.A] = st[len(st)-1]
		case op == 0x23:
			push(in.globals[i.A])
		case op == 0x24:
			in.globals[i.A] = pop()
		case op == 0x25 || op == 0x26:
			// table.get / table.set on table 0; a funcref on the stack is the constant function index (all ones = null)
			var ref *sym.Term
			if op == 0x26 {
				ref = pop()
			}
			idx := pop()
			if !idx.IsConst() && !m.path.Branch(c.Ult(idx, k32(uint64(len(in.table))))) {
				in.trap("out of bounds table access")
			}
			k := m.path.Concretize(idx, "table index")
			if i.A != 0 || k >= uint64(len(in.table)) {
				in.trap("out of bounds table access")
			}
			if op == 0x25 {
				push(c.Const(64, uint64(in.table[k])))
			} else {
				if !ref.IsConst() {
					m.path.abort("unsupported", "symbolic funcref")
				}
				in.table[k] = int64(ref.Val)
			}
		case op >= 0x28 && op <= 0x35:
			base := pop()
			var n, w int
			signed := false
			switch op {
			case 0x28, 0x2A:
				n, w = 4, 32
			case 0x29, 0x2B:
				n, w = 8, 64
			case 0x2C:
				n, w, signed = 1, 32, true
			case 0x2D:
				n, w = 1, 32
			case 0x2E:
				n, w, signed = 2, 32, true
			case 0x2F:
				n, w = 2, 32
			case 0x30:
				n, w, signed = 1, 64, true
			case 0x31:
				n, w = 1, 64
			case 0x32:
				n, w, signed = 2, 64, true
			case 0x33:
				n, w = 2, 64
			case 0x34:
				n, w, signed = 4, 64, true
			case 0x35:
				n, w = 4, 64
			}
			if v := in.tableLoad(base, i.B, n); v != nil {
				push(c.Resize(v, w, signed))
				break
			}
			a := in.effAddr(base, i.B, n)
			push(c.Resize(in.load(a, n), w, signed))
		case op >= 0x36 && op <= 0x3E:
			v := pop()
			base := pop()
			n := map[uint16]int{0x36: 4, 0x37: 8, 0x38: 4, 0x39: 8, 0x3A: 1, 0x3B: 2, 0x3C: 1, 0x3D: 2, 0x3E: 4}[op]
			a := in.effAddr(base, i.B, n)
			in.store(a, n, v)
		case op == 0x3F:
			push(k32(uint64(in.pages)))
		case op == 0x40:
			d := pop()
			dv := m.path.Concretize(d, "memory.grow delta")
			if uint64(in.pages)+dv > uint64(in.maxPages) || uint64(in.pages)+dv > 65536 {
				push(k32(0xffffffff))
			} else {
				push(k32(uint64(in.pages)))
				in.pages += uint32(dv)
			}
		case op == 0x41:
			push(k32(i.A))
		case op == 0x42:
			push(c.Const(64, i.A))
		case op == 0x43:
			push(k32(i.A))
		case op == 0x44:
			push(c.Const(64, i.A))
		case op == 0x45:
			push(b2i(c.Eq(pop(), k32(0))))
		case op == 0x50:
			push(b2i(c.Eq(pop(), c.Const(64, 0))))
		case (op >= 0x46 && op <= 0x4F) || (op >= 0x51 && op <= 0x5A):
			b, a := pop(), pop()
			k := op - 0x46
			if op >= 0x51 {
				k = op - 0x51
			}
			var r *sym.Term
			switch k {
			case 0:
				r = c.Eq(a, b)
			case 1:
				r = c.Not(c.Eq(a, b))
			case 2:
				r = c.Slt(a, b)
			case 3:
				r = c.Ult(a, b)
			case 4:
				r = c.Slt(b, a)
			case 5:
				r = c.Ult(b, a)
			case 6:
				r = c.Sle(a, b)
			case 7:
				r = c.Ule(a, b)
			case 8:
				r = c.Sle(b, a)
			case 9:
				r = c.Ule(b, a)
			}
			push(b2i(r))
		case (op >= 0x5B && op <= 0x60) || (op >= 0x61 && op <= 0x66):
			b, a := fp(pop()), fp(pop())
			k := op - 0x5B
			if op >= 0x61 {
				k = op - 0x61
			}
			var r *sym.Term
			switch k {
			case 0:
				r = c.FEq(a, b)
			case 1:
				r = c.Not(c.FEq(a, b))
			case 2:
				r = c.FLt(a, b)
			case 3:
				r = c.FLt(b, a)
			case 4:
				r = c.FLe(a, b)
			case 5:
				r = c.FLe(b, a)
			}
			push(b2i(r))
		case op == 0x67, op == 0x68, op == 0x69, op == 0x79, op == 0x7A, op == 0x7B:
			x := pop()
			w := x.Sort.W
			switch op {
			case 0x67, 0x79: // clz
				r := c.Const(w, uint64(w))
				for bit := 0; bit < w; bit++ {
					r = c.Ite(c.Eq(c.Extract(x, bit, bit), c.Const(1, 1)), c.Const(w, uint64(w-1-bit)), r)
				}
				push(r)
			case 0x68, 0x7A: // ctz
				r := c.Const(w, uint64(w))
				for bit := w - 1; bit >= 0; bit-- {
					r = c.Ite(c.Eq(c.Extract(x, bit, bit), c.Const(1, 1)), c.Const(w, uint64(bit)), r)
				}
				push(r)
			default: // popcnt
				r := c.Const(w, 0)
				for bit := 0; bit < w; bit++ {
					r = c.Add(r, c.Zext(c.Extract(x, bit, bit), w-1))
				}
				push(r)
			}
		case (op >= 0x6A && op <= 0x78) || (op >= 0x7C && op <= 0x8A):
			b, a := pop(), pop()
			w := a.Sort.W
			k := op - 0x6A
			if op >= 0x7C {
				k = op - 0x7C
			}
			sh := c.BAnd(b, c.Const(w, uint64(w-1)))
			switch k {
			case 0:
				push(c.Add(a, b))
			case 1:
				push(c.Sub(a, b))
			case 2:
				push(c.Mul(a, b))
			case 3, 4, 5, 6:
				if !m.path.Branch(c.Not(c.Eq(b, c.Const(w, 0)))) {
					in.trap("integer divide by zero")
				}
				switch k {
				case 3:
					minv := c.Const(w, uint64(1)<<uint(w-1))
					if m.path.Branch(c.And(c.Eq(a, minv), c.Eq(b, c.Const(w, ^uint64(0))))) {
						in.trap("integer overflow")
					}
					push(c.SDiv(a, b))
				case 4:
					push(c.UDiv(a, b))
				case 5:
					// rem_s: MinInt % -1 = 0 (bvsrem gives 0 as well)
					push(c.SRem(a, b))
				case 6:
					push(c.URem(a, b))
				}
			case 7:
				push(c.BAnd(a, b))
			case 8:
				push(c.BOr(a, b))
			case 9:
				push(c.BXor(a, b))
			case 10:
				push(c.Shl(a, sh))
			case 11:
				push(c.AShr(a, sh))
			case 12:
				push(c.LShr(a, sh))
			case 13: // rotl
				push(c.BOr(c.Shl(a, sh), c.LShr(a, c.BAnd(c.Sub(c.Const(w, uint64(w)), sh), c.Const(w, uint64(w-1))))))
			case 14: // rotr
				push(c.BOr(c.LShr(a, sh), c.Shl(a, c.BAnd(c.Sub(c.Const(w, uint64(w)), sh), c.Const(w, uint64(w-1))))))
			}
		case (op >= 0x8B && op <= 0x91) || (op >= 0x99 && op <= 0x9F):
			xraw := pop()
			x := fp(xraw)
			k := op - 0x8B
			if op >= 0x99 {
				k = op - 0x99
			}
			var r *sym.Term
			switch k {
			case 0: // abs and neg are sign-bit operations, defined on NaNs too
				w := xraw.Sort.W
				push(c.BAnd(xraw, c.Const(w, ^uint64(0)>>uint(65-w))))
				continue
			case 1:
				w := xraw.Sort.W
				push(c.BXor(xraw, c.Const(w, uint64(1)<<uint(w-1))))
				continue
			case 2:
				r = c.FRound(x, sym.RMUp)
			case 3:
				r = c.FRound(x, sym.RMDown)
			case 4:
				r = c.FRound(x, sym.RMTowardZero)
			case 5:
				r = c.FRound(x, sym.RMNearestEven)
			case 6:
				r = c.FSqrt(x)
			}
			push(bits(r))
		case (op >= 0x92 && op <= 0x98) || (op >= 0xA0 && op <= 0xA6):
			braw, araw := pop(), pop()
			b, a := fp(braw), fp(araw)
			k := op - 0x92
			if op >= 0xA0 {
				k = op - 0xA0
			}
			var r *sym.Term
			switch k {
			case 0:
				r = c.FAdd(a, b)
			case 1:
				r = c.FSub(a, b)
			case 2:
				r = c.FMul(a, b)
			case 3:
				r = c.FDiv(a, b)
			case 4, 5:
				// wasm min/max: NaN if either is NaN; -0 < +0
				w := araw.Sort.W
				nan := c.Const(w, map[int]uint64{32: 0x7fc00000, 64: 0x7ff8000000000000}[w])
				sa := c.Eq(c.Extract(araw, w-1, w-1), c.Const(1, 1))
				var pick *sym.Term
				if k == 4 {
					pick = c.Ite(c.FLt(a, b), araw, c.Ite(c.FLt(b, a), braw, c.Ite(sa, araw, braw)))
				} else {
					pick = c.Ite(c.FLt(b, a), araw, c.Ite(c.FLt(a, b), braw, c.Ite(sa, braw, araw)))
				}
				push(c.Ite(c.Or(c.FIsNaN(a), c.FIsNaN(b)), nan, pick))
				continue
			case 6: // copysign
				w := araw.Sort.W
				push(c.Concat(c.Extract(braw, w-1, w-1), c.Extract(araw, w-2, 0)))
				continue
			}
			push(bits(r))
		case op == 0xA7:
			push(c.Extract(pop(), 31, 0))
		case op >= 0xA8 && op <= 0xAB, op >= 0xAE && op <= 0xB1:
			// trunc float -> int with traps
			x := fp(pop())
			dw := 32
			if op >= 0xAE {
				dw = 64
			}
			signed := op == 0xA8 || op == 0xAA || op == 0xAE || op == 0xB0
			push(in.truncTrap(x, dw, signed))
		case op == 0xAC:
			push(c.Sext(pop(), 32))
		case op == 0xAD:
			push(c.Zext(pop(), 32))
		case op >= 0xB2 && op <= 0xB5, op >= 0xB7 && op <= 0xBA:
			x := pop()
			fw := 32
			if op >= 0xB7 {
				fw = 64
			}
			signed := op == 0xB2 || op == 0xB4 || op == 0xB7 || op == 0xB9
			push(bits(c.FFromInt(x, fw, signed)))
		case op == 0xB6:
			push(bits(c.FToFP(fp(pop()), 32)))
		case op == 0xBB:
			push(bits(c.FToFP(fp(pop()), 64)))
		case op >= 0xBC && op <= 0xBF:
			// reinterpret: values are bit patterns already
		case op == 0xC0:
			push(c.Sext(c.Extract(pop(), 7, 0), 24))
		case op == 0xC1:
			push(c.Sext(c.Extract(pop(), 15, 0), 16))
		case op == 0xC2:
			push(c.Sext(c.Extract(pop(), 7, 0), 56))
		case op == 0xC3:
			push(c.Sext(c.Extract(pop(), 15, 0), 48))
		case op == 0xC4:
			push(c.Sext(c.Extract(pop(), 31, 0), 32))
		case op >= 0xFC00 && op <= 0xFC07:
			x := fp(pop())
			sub := op - 0xFC00
			dw := 32
			if sub >= 4 {
				dw = 64
			}
			signed := sub%2 == 0
			push(in.truncSat(x, dw, signed))
		case op == 0xFC0A: // memory.copy
			n, s, d := pop(), pop(), pop()
			nv := m.path.Concretize(n, "memory.copy length")
			sv := m.path.Concretize(s, "memory.copy source")
			dv := m.path.Concretize(d, "memory.copy destination")
			lim := uint64(in.pages) * wasmPage
			if sv+nv > lim || dv+nv > lim {
				in.trap("out of bounds memory access")
			}
			tmp := make([]*sym.Term, nv)
			for k := uint64(0); k < nv; k++ {
				tmp[k] = in.loadByte(uint32(sv + k))
			}
			for k := uint64(0); k < nv; k++ {
				in.mem[uint32(dv+k)] = tmp[k]
			}
		case op == 0xFC0B: // memory.fill
			n, v, d := pop(), pop(), pop()
			nv := m.path.Concretize(n, "memory.fill length")
			dv := m.path.Concretize(d, "memory.fill destination")
			if dv+nv > uint64(in.pages)*wasmPage {
				in.trap("out of bounds memory access")
			}
			b := c.Extract(v, 7, 0)
			for k := uint64(0); k < nv; k++ {
				in.mem[uint32(dv+k)] = b
			}
		default:
			m.path.abort("unsupported", fmt.Sprintf("wasm opcode %#x", op))
		}
	}
	return st[len(st)-len(ft.Results):]
}

// truncTrap: iNN.trunc_fMM_{s,u}: trap on NaN and out of range.
func (in *wasmInst) truncTrap(x *sym.Term, dw int, signed bool) *sym.Term {
	m := in.m
	c := m.ctx
	if m.path.Branch(c.FIsNaN(x)) {
		in.trap("invalid conversion to integer")
	}
	fw := x.Sort.W
	fc := func(v float64) *sym.Term {
		if fw == 32 {
			return c.FConst(32, uint64(math.Float32bits(float32(v))))
		}
		return c.FConst(64, math.Float64bits(v))
	}
	var lo, hi *sym.Term // valid iff lo < x < hi (exclusive bounds on the real line)
	if signed {
		hi = fc(math.Ldexp(1, dw-1))
		// lower bound: x > -2^(dw-1) - 1; for f32, and for f64 with dw=64, that is x >= -2^(dw-1)
		if fw == 64 && dw == 32 {
			lo = fc(-math.Ldexp(1, 31) - 1)
			if !m.path.Branch(c.And(c.FLt(lo, x), c.FLt(x, hi))) {
				in.trap("integer overflow")
			}
		} else {
			lo = fc(-math.Ldexp(1, dw-1))
			if !m.path.Branch(c.And(c.FLe(lo, x), c.FLt(x, hi))) {
				in.trap("integer overflow")
			}
		}
	} else {
		hi = fc(math.Ldexp(1, dw))
		lo = fc(-1)
		if !m.path.Branch(c.And(c.FLt(lo, x), c.FLt(x, hi))) {
			in.trap("integer overflow")
		}
	}
	return c.FToInt(x, dw, signed)
}

func (in *wasmInst) truncSat(x *sym.Term, dw int, signed bool) *sym.Term {
	c := in.m.ctx
	fw := x.Sort.W
	fc := func(v float64) *sym.Term {
		if fw == 32 {
			return c.FConst(32, uint64(math.Float32bits(float32(v))))
		}
		return c.FConst(64, math.Float64bits(v))
	}
	var minV, maxV uint64
	var lo, hi *sym.Term
	if signed {
		minV, maxV = uint64(1)<<uint(dw-1), uint64(1)<<uint(dw-1)-1
		lo, hi = fc(-math.Ldexp(1, dw-1)), fc(math.Ldexp(1, dw-1))
	} else {
		minV, maxV = 0, ^uint64(0)>>uint(64-dw)
		lo, hi = fc(0), fc(math.Ldexp(1, dw))
	}
	r := c.FToInt(x, dw, signed)
	r = c.Ite(c.FLe(hi, x), c.Const(dw, maxV), r)
	r = c.Ite(c.FLe(x, lo), c.Const(dw, minV), r)
	r = c.Ite(c.FIsNaN(x), c.Const(dw, 0), r)
	return r
}
