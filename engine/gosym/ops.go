package gosym

import (
	"fmt"
	"go/constant"
	"go/token"
	"go/types"
	"math"
	"unicode/utf8"

	"golang.org/x/tools/go/ssa"

	"verif/engine/sym"
)

func (m *Machine) constValue(c *ssa.Const) Value {
	t := c.Type()
	if c.Value == nil {
		return m.zero(t)
	}
	if tp, ok := t.(*types.TypeParam); ok {
		_ = tp
		panic("constValue: type parameter")
	}
	if w, signed, ok := intWidth(t); ok {
		_ = signed
		v := constant.ToInt(c.Value)
		if i, exact := constant.Int64Val(v); exact {
			return m.ctx.Const(w, uint64(i))
		}
		if u, exact := constant.Uint64Val(v); exact {
			return m.ctx.Const(w, u)
		}
		panic("constValue: integer constant out of range")
	}
	if w, ok := floatWidth(t); ok {
		f, _ := constant.Float64Val(c.Value)
		if w == 32 {
			f32, _ := constant.Float32Val(c.Value)
			return m.ctx.FConst(32, uint64(math.Float32bits(f32)))
		}
		return m.ctx.FConst(64, math.Float64bits(f))
	}
	if isBool(t) {
		return m.ctx.Bool(constant.BoolVal(c.Value))
	}
	if isString(t) {
		return Str{S: constant.StringVal(c.Value)}
	}
	if b, ok := t.Underlying().(*types.Basic); ok && (b.Kind() == types.Complex128 || b.Kind() == types.Complex64 || b.Kind() == types.UntypedComplex) {
		return Opaque{"complex"}
	}
	panic(fmt.Sprintf("constValue: %v of type %v", c, t))
}

func (m *Machine) term(v Value) *sym.Term {
	t, ok := v.(*sym.Term)
	if !ok {
		panic(fmt.Sprintf("gosym: scalar expected, have %T", v))
	}
	return t
}

// asInt returns a concrete int from an integer value, concretising if needed.
func (m *Machine) asInt(v Value, what string) int {
	t := m.term(v)
	if !t.IsConst() {
		return int(int64(m.path.Concretize(t, what)))
	}
	return int(t.Int64())
}

func (m *Machine) binop(op token.Token, xt types.Type, yt types.Type, x, y Value, instr ssa.Instruction) Value {
	c := m.ctx
	switch op {
	case token.EQL:
		return m.equals(xt, x, y)
	case token.NEQ:
		return c.Not(m.equals(xt, x, y))
	}
	if isString(xt) {
		xs, ys := x.(Str), y.(Str)
		switch op {
		case token.ADD:
			if xs.Concrete() && ys.Concrete() {
				return Str{S: xs.S + ys.S}
			}
			return mkStr(append(append([]*sym.Term{}, m.strBytes(xs)...), m.strBytes(ys)...))
		case token.LSS:
			return m.strLess(xs, ys, false)
		case token.LEQ:
			return m.strLess(xs, ys, true)
		case token.GTR:
			return m.strLess(ys, xs, false)
		case token.GEQ:
			return m.strLess(ys, xs, true)
		}
		panic("binop string " + op.String())
	}
	if w, ok := floatWidth(xt); ok {
		_ = w
		a, b := m.term(x), m.term(y)
		switch op {
		case token.ADD:
			return c.FAdd(a, b)
		case token.SUB:
			return c.FSub(a, b)
		case token.MUL:
			return c.FMul(a, b)
		case token.QUO:
			return c.FDiv(a, b)
		case token.LSS:
			return c.FLt(a, b)
		case token.LEQ:
			return c.FLe(a, b)
		case token.GTR:
			return c.FLt(b, a)
		case token.GEQ:
			return c.FLe(b, a)
		}
		panic("binop float " + op.String())
	}
	if isBool(xt) {
		a, b := m.term(x), m.term(y)
		switch op {
		case token.AND, token.LAND:
			return c.And(a, b)
		case token.OR, token.LOR:
			return c.Or(a, b)
		case token.XOR:
			return c.Not(c.Eq(a, b))
		}
		panic("binop bool " + op.String())
	}
	w, signed, ok := intWidth(xt)
	if !ok {
		if _, isOp := x.(Opaque); isOp {
			m.path.abort("unsupported", "arithmetic on complex/opaque value")
		}
		panic(fmt.Sprintf("binop %v on %v", op, xt))
	}
	a, b := m.term(x), m.term(y)
	switch op {
	case token.ADD:
		return c.Add(a, b)
	case token.SUB:
		return c.Sub(a, b)
	case token.MUL:
		return c.Mul(a, b)
	case token.QUO, token.REM:
		if m.path.Branch(c.Eq(b, c.Const(w, 0))) {
			m.panicRT("runtime error: integer divide by zero")
		}
		if signed {
			if op == token.QUO {
				return c.SDiv(a, b)
			}
			return c.SRem(a, b)
		}
		if op == token.QUO {
			return c.UDiv(a, b)
		}
		return c.URem(a, b)
	case token.AND:
		return c.BAnd(a, b)
	case token.OR:
		return c.BOr(a, b)
	case token.XOR:
		return c.BXor(a, b)
	case token.AND_NOT:
		return c.BAnd(a, c.BNot(b))
	case token.SHL, token.SHR:
		yw, ysigned, _ := intWidth(yt)
		if ysigned {
			if m.path.Branch(c.Slt(b, c.Const(yw, 0))) {
				m.panicRT("runtime error: negative shift amount")
			}
		}
		var big *sym.Term // count >= width
		var cnt *sym.Term
		if yw > w {
			big = c.Ule(c.Const(yw, uint64(w)), b)
			cnt = c.Extract(b, w-1, 0)
		} else {
			big = c.False // SMT shift semantics coincide with Go's for count >= width
			cnt = c.Zext(b, w-yw)
		}
		var r, over *sym.Term
		switch {
		case op == token.SHL:
			r, over = c.Shl(a, cnt), c.Const(w, 0)
		case signed:
			r, over = c.AShr(a, cnt), c.AShr(a, c.Const(w, uint64(w-1)))
		default:
			r, over = c.LShr(a, cnt), c.Const(w, 0)
		}
		return c.Ite(big, over, r)
	case token.LSS:
		if signed {
			return c.Slt(a, b)
		}
		return c.Ult(a, b)
	case token.LEQ:
		if signed {
			return c.Sle(a, b)
		}
		return c.Ule(a, b)
	case token.GTR:
		if signed {
			return c.Slt(b, a)
		}
		return c.Ult(b, a)
	case token.GEQ:
		if signed {
			return c.Sle(b, a)
		}
		return c.Ule(b, a)
	}
	panic("binop int " + op.String())
}

func (m *Machine) strLess(a, b Str, orEq bool) *sym.Term {
	c := m.ctx
	ab, bb := m.strBytes(a), m.strBytes(b)
	n := len(ab)
	if len(bb) < n {
		n = len(bb)
	}
	// result when common prefix equal
	var tail *sym.Term
	if orEq {
		tail = c.Bool(len(ab) <= len(bb))
	} else {
		tail = c.Bool(len(ab) < len(bb))
	}
	r := tail
	for i := n - 1; i >= 0; i-- {
		r = c.Ite(c.Eq(ab[i], bb[i]), r, c.Ult(ab[i], bb[i]))
	}
	return r
}

func (m *Machine) strEq(a, b Str) *sym.Term {
	if a.Len() != b.Len() {
		return m.ctx.False
	}
	if a.Concrete() && b.Concrete() {
		return m.ctx.Bool(a.S == b.S)
	}
	ab, bb := m.strBytes(a), m.strBytes(b)
	r := m.ctx.True
	for i := range ab {
		r = m.ctx.And(r, m.ctx.Eq(ab[i], bb[i]))
	}
	return r
}

// equals implements Go's == as a (possibly symbolic) boolean.
func (m *Machine) equals(t types.Type, x, y Value) *sym.Term {
	c := m.ctx
	switch xv := x.(type) {
	case *sym.Term:
		yv, ok := y.(*sym.Term)
		if !ok {
			return c.False
		}
		if xv.Sort.K == sym.KFP {
			return c.FEq(xv, yv)
		}
		return c.Eq(xv, yv)
	case Str:
		ys, ok := y.(Str)
		if !ok {
			return c.False
		}
		return m.strEq(xv, ys)
	case *Value:
		switch yv := y.(type) {
		case *Value:
			return c.Bool(xv == yv)
		case *SymPtr:
			return m.symPtrEq(yv, xv)
		}
		return c.Bool(xv == nil && isNilValue(y))
	case *SymPtr:
		if yp, ok := y.(*Value); ok {
			return m.symPtrEq(xv, yp)
		}
		m.path.abort("unsupported", "comparison of two symbolic-index pointers")
	case *Map:
		yv, _ := y.(*Map)
		return c.Bool(xv == yv)
	case []Value:
		// only comparable to nil
		yv, _ := y.([]Value)
		return c.Bool(xv == nil && yv == nil)
	case Iface:
		yi, ok := y.(Iface)
		if !ok {
			return c.False
		}
		if xv.T == nil || yi.T == nil {
			return c.Bool(xv.T == nil && yi.T == nil)
		}
		if !types.Identical(xv.T, yi.T) {
			return c.False
		}
		if !types.Comparable(xv.T) {
			m.panicRT("runtime error: comparing uncomparable type " + xv.T.String())
		}
		return m.equals(xv.T, xv.V, yi.V)
	case Struct:
		ys := y.(Struct)
		st := t.Underlying().(*types.Struct)
		r := c.True
		for i := range xv {
			if st.Field(i).Name() == "_" {
				continue
			}
			r = c.And(r, m.equals(st.Field(i).Type(), xv[i], ys[i]))
		}
		return r
	case Array:
		ya := y.(Array)
		et := t.Underlying().(*types.Array).Elem()
		r := c.True
		for i := range xv {
			r = c.And(r, m.equals(et, xv[i], ya[i]))
		}
		return r
	case *ssa.Function:
		yf, _ := y.(*ssa.Function)
		if xv == nil {
			return c.Bool(isNilValue(y))
		}
		return c.Bool(xv == yf)
	case *Closure:
		if isNilValue(y) {
			return c.False
		}
		yc, _ := y.(*Closure)
		return c.Bool(xv == yc)
	case *ssa.Builtin:
		return c.False
	case Opaque:
		yo, ok := y.(Opaque)
		return c.Bool(ok && xv == yo)
	case nil:
		return c.Bool(isNilValue(y))
	}
	panic(fmt.Sprintf("equals: %T vs %T", x, y))
}

func (m *Machine) symPtrEq(sp *SymPtr, p *Value) *sym.Term {
	c := m.ctx
	if p == nil {
		return c.False
	}
	if len(sp.Sub) == 0 {
		for i := range sp.Cells {
			if &sp.Cells[i] == p {
				return c.Eq(sp.Idx, c.Const(sp.Idx.Sort.W, uint64(i)))
			}
		}
		return c.False
	}
	m.path.abort("unsupported", "comparison of symbolic-index field pointer")
	return nil
}

func isNilValue(v Value) bool {
	switch v := v.(type) {
	case nil:
		return true
	case *Value:
		return v == nil
	case *Map:
		return v == nil
	case []Value:
		return v == nil
	case *ssa.Function:
		return v == nil
	case Iface:
		return v.T == nil
	case *Closure:
		return v == nil
	}
	return false
}

func (m *Machine) unop(instr *ssa.UnOp, x Value) Value {
	c := m.ctx
	switch instr.Op {
	case token.ARROW:
		m.path.abort("unsupported", "channel receive")
	case token.MUL:
		return m.load(deref(instr.X.Type()), x)
	case token.NOT:
		return c.Not(m.term(x))
	case token.SUB:
		t := m.term(x)
		if t.Sort.K == sym.KFP {
			return c.FNeg(t)
		}
		return c.Neg(t)
	case token.XOR:
		return c.BNot(m.term(x))
	}
	panic("unop " + instr.Op.String())
}

// conv implements ssa.Convert.
func (m *Machine) conv(tDst, tSrc types.Type, x Value) Value {
	c := m.ctx
	ud, us := tDst.Underlying(), tSrc.Underlying()
	// unsafe.Pointer / pointer conversions: identity on our pointers
	if b, ok := ud.(*types.Basic); ok && b.Kind() == types.UnsafePointer {
		return x
	}
	if b, ok := us.(*types.Basic); ok && b.Kind() == types.UnsafePointer {
		return x
	}
	switch us := us.(type) {
	case *types.Pointer:
		return x
	case *types.Slice:
		// []byte / []rune -> string
		if isString(tDst) {
			sl := x.([]Value)
			ew, _, _ := intWidth(us.Elem())
			if ew == 8 {
				b := make([]*sym.Term, len(sl))
				for i, e := range sl {
					b[i] = m.term(e)
				}
				return mkStr(b)
			}
			var out []*sym.Term
			for _, e := range sl {
				r := m.term(e)
				if !r.IsConst() {
					// forks on the UTF-8 length class of the symbolic rune
					st := m.encodeRuneSym(c.Resize(r, 64, true)).(Str)
					out = append(out, m.strBytes(st)...)
					continue
				}
				for _, b := range utf8.AppendRune(nil, rune(r.Int64())) {
					out = append(out, c.Const(8, uint64(b)))
				}
			}
			return mkStr(out)
		}
		return x
	case *types.Basic:
		if isString(tSrc) {
			s := x.(Str)
			if isString(tDst) {
				return x
			}
			if sl, ok := ud.(*types.Slice); ok {
				ew, _, _ := intWidth(sl.Elem())
				if ew == 8 {
					bs := m.strBytes(s)
					out := make([]Value, len(bs))
					for i, b := range bs {
						out[i] = b
					}
					return out
				}
				// []rune(s)
				if !s.Concrete() {
					return m.runesOfSym(s)
				}
				var out []Value
				for _, r := range s.S {
					out = append(out, c.Const(32, uint64(uint32(r))))
				}
				if out == nil {
					out = []Value{}
				}
				return out
			}
		}
		if w, signed, ok := intWidth(tSrc); ok {
			t := m.term(x)
			if dw, _, ok := intWidth(tDst); ok {
				return c.Resize(t, dw, signed)
			}
			if fw, ok := floatWidth(tDst); ok {
				return c.FFromInt(t, fw, signed)
			}
			if isString(tDst) {
				// string(rune)
				if !t.IsConst() {
					return m.encodeRuneSym(c.Resize(t, 64, signed))
				}
				var r rune
				if signed {
					v := t.Int64()
					r = rune(v)
					if int64(r) != v {
						r = utf8.RuneError
					}
				} else {
					r = rune(t.Val)
					if uint64(r) != t.Val {
						r = utf8.RuneError
					}
				}
				_ = w
				return Str{S: string(r)}
			}
		}
		if w, ok := floatWidth(tSrc); ok {
			_ = w
			t := m.term(x)
			if fw, ok := floatWidth(tDst); ok {
				return c.FToFP(t, fw)
			}
			if dw, dsigned, ok := intWidth(tDst); ok {
				return m.floatToInt(t, dw, dsigned)
			}
		}
		if _, ok := x.(Opaque); ok {
			return x
		}
	}
	panic(fmt.Sprintf("conv %v -> %v (%T)", tSrc, tDst, x))
}

// floatToInt models the amd64 gc behaviour (CVTTSD2SQ then truncation), which
// is what the native replay executes; out-of-range inputs are
// implementation-specific in Go and harnesses should not depend on them.
func (m *Machine) floatToInt(t *sym.Term, dw int, dsigned bool) Value {
	c := m.ctx
	if t.Sort.W == 32 {
		t = c.FToFP(t, 64)
	}
	two63 := c.FConst(64, math.Float64bits(9223372036854775808.0))
	mtwo63 := c.FConst(64, math.Float64bits(-9223372036854775808.0))
	indef := c.Const(64, 1<<63)
	inS := c.And(c.FLe(mtwo63, t), c.FLt(t, two63)) // false for NaN
	s64 := c.Ite(inS, c.FToInt(t, 64, true), indef)
	if dw == 64 && !dsigned {
		// gc: if x < 2^63 { cvtt(x) } else { cvtt(x-2^63) ^ 1<<63 }
		hi := c.FSub(t, two63)
		inHi := c.And(c.FLe(mtwo63, hi), c.FLt(hi, two63))
		hv := c.BXor(c.Ite(inHi, c.FToInt(hi, 64, true), indef), indef)
		lt := c.FLt(t, two63)
		return c.Ite(lt, s64, hv)
	}
	return c.Extract(s64, dw-1, 0)
}

func (m *Machine) runesOfSym(s Str) Value {
	var out []Value
	pos := 0
	for pos < s.Len() {
		r, n := m.decodeRune(s, pos)
		out = append(out, r)
		pos += n
	}
	if out == nil {
		out = []Value{}
	}
	return out
}

// decodeRune decodes one UTF-8 sequence at pos (Go's range/DecodeRuneInString
// semantics), forking on the byte classes when bytes are symbolic.
func (m *Machine) decodeRune(s Str, pos int) (*sym.Term, int) {
	c := m.ctx
	bs := m.strBytes(s)
	n := len(bs) - pos
	b0 := bs[pos]
	k8 := func(v uint64) *sym.Term { return c.Const(8, v) }
	bad := c.Const(32, 0xFFFD)
	ext := func(b *sym.Term) *sym.Term { return c.Zext(b, 24) }
	if m.path.Branch(c.Ult(b0, k8(0x80))) {
		return ext(b0), 1
	}
	if m.path.Branch(c.Ult(b0, k8(0xC2))) || m.path.Branch(c.Ult(k8(0xF4), b0)) {
		return bad, 1
	}
	inRange := func(b *sym.Term, lo, hi uint64) bool {
		return m.path.Branch(c.And(c.Ule(k8(lo), b), c.Ule(b, k8(hi))))
	}
	cont := func(b *sym.Term) *sym.Term { return c.BAnd(ext(b), c.Const(32, 0x3f)) }
	sh := func(t *sym.Term, k uint64) *sym.Term { return c.Shl(t, c.Const(32, k)) }
	if m.path.Branch(c.Ult(b0, k8(0xE0))) {
		if n < 2 || !inRange(bs[pos+1], 0x80, 0xBF) {
			return bad, 1
		}
		return c.BOr(sh(c.BAnd(ext(b0), c.Const(32, 0x1f)), 6), cont(bs[pos+1])), 2
	}
	if m.path.Branch(c.Ult(b0, k8(0xF0))) {
		lo, hi := uint64(0x80), uint64(0xBF)
		if m.path.Branch(c.Eq(b0, k8(0xE0))) {
			lo = 0xA0
		} else if m.path.Branch(c.Eq(b0, k8(0xED))) {
			hi = 0x9F
		}
		if n < 2 || !inRange(bs[pos+1], lo, hi) {
			return bad, 1
		}
		if n < 3 || !inRange(bs[pos+2], 0x80, 0xBF) {
			return bad, 1
		}
		return c.BOr(c.BOr(sh(c.BAnd(ext(b0), c.Const(32, 0x0f)), 12), sh(cont(bs[pos+1]), 6)), cont(bs[pos+2])), 3
	}
	lo, hi := uint64(0x80), uint64(0xBF)
	if m.path.Branch(c.Eq(b0, k8(0xF0))) {
		lo = 0x90
	} else if m.path.Branch(c.Eq(b0, k8(0xF4))) {
		hi = 0x8F
	}
	if n < 2 || !inRange(bs[pos+1], lo, hi) {
		return bad, 1
	}
	if n < 3 || !inRange(bs[pos+2], 0x80, 0xBF) {
		return bad, 1
	}
	if n < 4 || !inRange(bs[pos+3], 0x80, 0xBF) {
		return bad, 1
	}
	return c.BOr(c.BOr(c.BOr(sh(c.BAnd(ext(b0), c.Const(32, 0x07)), 18), sh(cont(bs[pos+1]), 12)), sh(cont(bs[pos+2]), 6)), cont(bs[pos+3])), 4
}

// encodeRuneSym is string(rune) for a symbolic code point (64-bit, already
// sign/zero-extended): forks on the UTF-8 length class.
func (m *Machine) encodeRuneSym(v *sym.Term) Value {
	c := m.ctx
	k := func(x uint64) *sym.Term { return c.Const(64, x) }
	b8 := func(t *sym.Term) *sym.Term { return c.Extract(t, 7, 0) }
	cont := func(sh uint64) *sym.Term {
		return b8(c.BOr(c.BAnd(c.LShr(v, k(sh)), k(0x3f)), k(0x80)))
	}
	lead := func(sh, mark uint64) *sym.Term { return b8(c.BOr(c.LShr(v, k(sh)), k(mark))) }
	bad := Str{S: "\uFFFD"}
	if m.path.Branch(c.Ult(v, k(0x80))) {
		return mkStr([]*sym.Term{b8(v)})
	}
	if m.path.Branch(c.Ult(v, k(0x800))) {
		return mkStr([]*sym.Term{lead(6, 0xC0), cont(0)})
	}
	if m.path.Branch(c.Ult(v, k(0x10000))) {
		if m.path.Branch(c.And(c.Ule(k(0xD800), v), c.Ule(v, k(0xDFFF)))) {
			return bad
		}
		return mkStr([]*sym.Term{lead(12, 0xE0), cont(6), cont(0)})
	}
	if m.path.Branch(c.Ule(v, k(0x10FFFF))) {
		return mkStr([]*sym.Term{lead(18, 0xF0), cont(12), cont(6), cont(0)})
	}
	return bad
}
