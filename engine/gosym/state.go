// Package gosym is a bounded symbolic executor for Go programs in go/ssa form.
// Scalars are sym.Terms (constants fold, so concrete code runs concretely);
// control flow that depends on symbolic data forks by re-execution from the
// harness entry along a recorded decision prefix (stateless DFS).
package gosym

import (
	"fmt"
	"os"
	"runtime"
	"sort"
	"strings"
	"time"

	"verif/engine/sym"
)

// Decision is one recorded choice on a path.
type Decision struct {
	Kind  byte   // 'b' branch, 'c' choice, 'v' concretised value test
	Taken bool   // for 'b' and 'v'
	Val   uint64 // 'c': chosen alternative; 'v': the value tested
}

type pathAbort struct {
	kind   string // "assume", "incomplete", "unsupported", "done"
	reason string
}

// Cex is a counterexample to an assertion, or an uncaught panic.
type Cex struct {
	Label  string            `json:"label"`
	Inputs map[string]string `json:"inputs"` // var name -> hex value
	Path   int               `json:"path"`
	Info   string            `json:"info,omitempty"`
}

// PathSample is a model of a fully explored path with predicted observations.
type PathSample struct {
	Path    int               `json:"path"`
	Inputs  map[string]string `json:"inputs"`
	Observe map[string]string `json:"observe"`
	Outcome string            `json:"outcome"` // "return", "panic", "exit:N"
}

type Limits struct {
	MaxDecisions  int
	MaxSteps      int64
	HangSteps     int64 // >0: a path longer than this is reported as a termination counterexample
	MaxPaths      int
	BranchTimeout time.Duration
	AssertTimeout time.Duration
	MaxConcretize int
	Deadline      time.Time
}

func DefaultLimits() Limits {
	return Limits{MaxDecisions: 400, MaxSteps: 20_000_000, MaxPaths: 200000,
		BranchTimeout: 10 * time.Second, AssertTimeout: 60 * time.Second, MaxConcretize: 300}
}

// Explorer holds everything that lives across the paths of one task.
type Explorer struct {
	Ctx    *sym.Ctx
	Solver *sym.Solver
	Lim    Limits

	work [][]Decision // pending decision prefixes (LIFO)

	// results
	Paths        int
	PathsDone    int
	Incomplete   []string
	Unsupported  map[string]int
	Cex          []Cex
	cexSeen      map[string]bool
	Reached      map[string]int // assertion label -> paths that reached it
	AssertChecks int
	Forks        int
	Samples      []PathSample
	SampleEvery  int
	StubsHit     map[string]int
	MaxCexPerLbl int
	Steps        int64
	Notes        map[string]int
	Case         int
	Decisions    int
	Diags        []Cex
	Funcs        map[string]int
}

func NewExplorer(kind string) (*Explorer, error) {
	ctx := sym.NewCtx()
	s, err := sym.NewSolver(ctx, kind)
	if err != nil {
		return nil, err
	}
	return &Explorer{Ctx: ctx, Solver: s, Lim: DefaultLimits(), Unsupported: map[string]int{},
		cexSeen: map[string]bool{}, Reached: map[string]int{}, StubsHit: map[string]int{},
		MaxCexPerLbl: 3, SampleEvery: 1, Notes: map[string]int{}, Funcs: map[string]int{}}, nil
}

// Path is the per-path state.
type Path struct {
	ex       *Explorer
	ctx      *sym.Ctx
	prefix   []Decision
	pos      int
	pc       []*sym.Term
	model    map[*sym.Term]*sym.Term // satisfies pc, or nil
	memo     map[*sym.Term]*sym.Term
	steps    int64
	nDec     int
	observe  map[string]*sym.Term
	obsOrder []string
	inputs   []*sym.Term
	id       int
	outcome  string
	choices  [][2]string
}

func (p *Path) abort(kind, reason string) {
	panic(pathAbort{kind, reason})
}

func (p *Path) assume(c *sym.Term) {
	if c.IsTrue() {
		return
	}
	p.pc = append(p.pc, c)
	p.ex.Solver.Assert(c)
	if p.model != nil {
		if v := p.eval(c); v == nil || !v.IsTrue() {
			p.model = nil
			p.memo = nil
		}
	}
}

func (p *Path) eval(t *sym.Term) *sym.Term {
	if p.model == nil {
		return nil
	}
	if p.memo == nil {
		p.memo = map[*sym.Term]*sym.Term{}
	}
	r := p.ctx.Subst(t, p.model, p.memo)
	if !r.IsConst() {
		// variables created after the model was taken: complete with zero
		vs := sym.VarsOf(r)
		for _, v := range vs {
			switch v.Sort.K {
			case sym.KBool:
				p.model[v] = p.ctx.False
			case sym.KBV:
				p.model[v] = p.ctx.Const128(v.Sort.W, 0, 0)
			}
		}
		p.memo = map[*sym.Term]*sym.Term{}
		r = p.ctx.Subst(t, p.model, p.memo)
		if !r.IsConst() {
			return nil
		}
	}
	return r
}

// ensureModel makes p.model a model of the path condition.
func (p *Path) ensureModel() bool {
	if p.model != nil {
		return true
	}
	r := p.ex.Solver.Check(p.ex.Lim.BranchTimeout)
	if r != sym.Sat {
		return false
	}
	p.model = p.ex.Solver.Model(p.ctx.Vars)
	p.memo = nil
	return p.model != nil
}

// feasible decides whether pc ∧ c is satisfiable; updates the model when it
// learns one. Returns (sat, known).
func (p *Path) feasible(c *sym.Term) (bool, bool) {
	if c.IsTrue() {
		return true, true
	}
	if c.IsFalse() {
		return false, true
	}
	if v := p.eval(c); v != nil && v.IsTrue() {
		return true, true
	}
	r := p.ex.Solver.Check(p.ex.Lim.BranchTimeout, c)
	switch r {
	case sym.Sat:
		p.ex.Solver.DropModel()
		return true, true
	case sym.Unsat:
		return false, true
	}
	return false, false
}

func (p *Path) countDecision() {
	p.nDec++
	if p.nDec > p.ex.Lim.MaxDecisions {
		p.abort("incomplete", fmt.Sprintf("more than %d symbolic decisions on one path (unwinding bound)", p.ex.Lim.MaxDecisions))
	}
}

// Branch resolves a boolean condition to a concrete direction for this path,
// scheduling the other direction if it is feasible too.
func (p *Path) Branch(c *sym.Term) bool {
	if c.IsConst() {
		return c.Val == 1
	}
	if p.pos < len(p.prefix) {
		d := p.prefix[p.pos]
		if d.Kind != 'b' {
			panic(fmt.Sprintf("gosym: replay divergence: expected branch, have %c", d.Kind))
		}
		p.pos++
		p.countDecision()
		if d.Taken {
			p.assume(c)
		} else {
			p.assume(p.ctx.Not(c))
		}
		return d.Taken
	}
	nc := p.ctx.Not(c)
	// use the model to get one side for free
	var ft, ff, kt, kf bool
	if v := p.eval(c); v != nil {
		if v.IsTrue() {
			ft, kt = true, true
		} else {
			ff, kf = true, true
		}
	}
	if !kt {
		ft, kt = p.feasible(c)
	}
	if !kf {
		ff, kf = p.feasible(nc)
	}
	if !kt || !kf {
		p.abort("incomplete", "solver unknown on branch feasibility: "+p.ex.Solver.LastErr)
	}
	p.countDecision()
	switch {
	case ft && ff:
		forkLog("branch")
		alt := append(append([]Decision{}, p.prefix...), Decision{Kind: 'b', Taken: false})
		p.ex.work = append(p.ex.work, alt)
		p.ex.Forks++
		p.prefix = append(p.prefix, Decision{Kind: 'b', Taken: true})
		p.pos++
		p.assume(c)
		return true
	case ft:
		p.prefix = append(p.prefix, Decision{Kind: 'b', Taken: true})
		p.pos++
		p.assume(c)
		return true
	case ff:
		p.prefix = append(p.prefix, Decision{Kind: 'b', Taken: false})
		p.pos++
		p.assume(nc)
		return false
	}
	p.abort("assume", "path condition became infeasible")
	return false
}

// Choice forks n ways without involving the solver.
func (p *Path) Choice(n int) int {
	if n <= 1 {
		return 0
	}
	if p.pos < len(p.prefix) {
		d := p.prefix[p.pos]
		if d.Kind != 'c' {
			panic("gosym: replay divergence: expected choice")
		}
		p.pos++
		return int(d.Val)
	}
	for k := n - 1; k >= 1; k-- {
		alt := append(append([]Decision{}, p.prefix...), Decision{Kind: 'c', Val: uint64(k)})
		p.ex.work = append(p.ex.work, alt)
	}
	p.ex.Forks += n - 1
	p.prefix = append(p.prefix, Decision{Kind: 'c', Val: 0})
	p.pos++
	return 0
}

// Concretize forks over the feasible values of t (W<=64).
func (p *Path) Concretize(t *sym.Term, what string) uint64 {
	if !t.IsConst() {
		forkLog("concretize " + what)
	}
	if t.IsConst() {
		return t.Val
	}
	if t.Sort.K == sym.KBool {
		if p.Branch(t) {
			return 1
		}
		return 0
	}
	for n := 0; ; n++ {
		if n > p.ex.Lim.MaxConcretize {
			p.abort("incomplete", "too many values when concretising "+what)
		}
		var val uint64
		if p.pos < len(p.prefix) {
			d := p.prefix[p.pos]
			if d.Kind != 'v' {
				panic("gosym: replay divergence: expected value test")
			}
			p.pos++
			p.countDecision()
			eq := p.ctx.Eq(t, p.ctx.Const(t.Sort.W, d.Val))
			if d.Taken {
				p.assume(eq)
				return d.Val
			}
			p.assume(p.ctx.Not(eq))
			continue
		}
		if !p.ensureModel() {
			p.abort("incomplete", "no model when concretising "+what)
		}
		v := p.eval(t)
		if v == nil {
			p.abort("incomplete", "cannot evaluate when concretising "+what)
		}
		val = v.Val
		eq := p.ctx.Eq(t, p.ctx.Const(t.Sort.W, val))
		other, known := p.feasible(p.ctx.Not(eq))
		if !known {
			p.abort("incomplete", "solver unknown when concretising "+what)
		}
		p.countDecision()
		if other {
			alt := append(append([]Decision{}, p.prefix...), Decision{Kind: 'v', Taken: false, Val: val})
			p.ex.work = append(p.ex.work, alt)
			p.ex.Forks++
		}
		p.prefix = append(p.prefix, Decision{Kind: 'v', Taken: true, Val: val})
		p.pos++
		p.assume(eq)
		return val
	}
}

func (p *Path) inputsOf(model map[*sym.Term]*sym.Term) map[string]string {
	m := map[string]string{}
	for _, ch := range p.choices {
		m["choice:"+ch[0]] = ch[1]
	}
	for _, v := range p.inputs {
		c := model[v]
		if c == nil {
			m[v.Name] = "0"
			continue
		}
		if c.Sort.W > 64 {
			m[v.Name] = fmt.Sprintf("%x", c.Big())
		} else {
			m[v.Name] = fmt.Sprintf("%x", c.Val)
		}
	}
	return m
}

// Assert checks pc ∧ ¬c. A satisfying model is recorded as a counterexample
// (to be replayed natively). Assertions are independent: the path condition is
// not strengthened by c, so one failing assertion does not mask the next.
func (p *Path) Assert(c *sym.Term, label string) {
	p.ex.Reached[label]++
	if c.IsTrue() {
		return
	}
	p.ex.AssertChecks++
	if c.IsFalse() {
		if !p.ensureModel() {
			p.abort("incomplete", "solver unknown at assertion "+label)
		}
		p.recordCex(label, p.model, "")
		return
	}
	// cheap refutation by the current model
	if v := p.eval(c); v != nil && v.IsFalse() {
		p.recordCex(label, p.model, "")
		return
	}
	nc := p.ctx.Not(c)
	res := p.ex.Solver.Check(p.ex.Lim.AssertTimeout, nc)
	switch res {
	case sym.Sat:
		m := p.ex.Solver.Model(p.ctx.Vars)
		if m == nil {
			p.abort("incomplete", "model fetch failed at assertion "+label)
		}
		p.recordCex(label, m, "")
	case sym.Unsat:
	default:
		p.abort("incomplete", "solver unknown at assertion "+label+": "+p.ex.Solver.LastErr)
	}
}

// Diag is a non-fatal assertion: a satisfying model of pc ∧ ¬c is recorded as
// a diagnostic (NOTE), never as a violation; the path is not constrained.
func (p *Path) Diag(c *sym.Term, label string) {
	if c.IsTrue() {
		return
	}
	n := 0
	for _, d := range p.ex.Diags {
		if d.Label == label {
			n++
		}
	}
	if n >= 1 {
		return
	}
	var m map[*sym.Term]*sym.Term
	if c.IsFalse() {
		if !p.ensureModel() {
			return
		}
		m = p.model
	} else {
		if p.ex.Solver.Check(p.ex.Lim.BranchTimeout, p.ctx.Not(c)) != sym.Sat {
			return
		}
		m = p.ex.Solver.Model(p.ctx.Vars)
		if m == nil {
			return
		}
	}
	p.ex.Diags = append(p.ex.Diags, Cex{Label: label, Inputs: p.inputsOf(m), Path: p.id})
}

func (p *Path) recordCex(label string, m map[*sym.Term]*sym.Term, info string) {
	n := 0
	for _, c := range p.ex.Cex {
		if c.Label == label {
			n++
		}
	}
	if n >= p.ex.MaxCexPerLbl {
		return
	}
	in := p.inputsOf(m)
	key := label + fmt.Sprint(sortedKV(in))
	if p.ex.cexSeen[key] {
		return
	}
	p.ex.cexSeen[key] = true
	p.ex.Cex = append(p.ex.Cex, Cex{Label: label, Inputs: in, Path: p.id, Info: info})
}

func sortedKV(m map[string]string) []string {
	var ks []string
	for k, v := range m {
		ks = append(ks, k+"="+v)
	}
	sort.Strings(ks)
	return ks
}

// NewInput declares a named symbolic input.
func (p *Path) NewInput(name string, w int) *sym.Term {
	for _, v := range p.inputs {
		if v.Name == name {
			p.abort("unsupported", "harness requested input "+name+" twice on one path")
		}
	}
	v := p.ctx.Var(name, sym.BV(w))
	p.inputs = append(p.inputs, v)
	return v
}

func (p *Path) Observe(name string, t *sym.Term) {
	if _, dup := p.observe[name]; !dup {
		p.obsOrder = append(p.obsOrder, name)
	}
	p.observe[name] = t
}

var forkLogN int

// forkLog (developer aid, GOSYM_FORKLOG=1): where the first forks of a run come from.
func forkLog(what string) {
	if os.Getenv("GOSYM_FORKLOG") == "" || forkLogN >= 40 {
		return
	}
	forkLogN++
	var pcs [14]uintptr
	n := runtime.Callers(2, pcs[:])
	fs := runtime.CallersFrames(pcs[:n])
	var names []string
	for {
		f, more := fs.Next()
		names = append(names, fmt.Sprintf("%s:%d", strings.TrimPrefix(f.Function, "verif/engine/gosym."), f.Line))
		if !more {
			break
		}
	}
	fmt.Fprintf(os.Stderr, "FORK %s: %s\n", what, strings.Join(names, " < "))
}
