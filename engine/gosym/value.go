package gosym

import (
	"fmt"
	"go/types"
	"strings"

	"golang.org/x/tools/go/ssa"

	"verif/engine/sym"
)

// Value is one of:
//   *sym.Term            bool / integer / float scalars
//   Str                  strings (concrete length, bytes concrete or symbolic)
//   []Value              slices (Go slice semantics over cells)
//   Array, Struct        aggregates by value
//   *Value               pointers (nil pointer = (*Value)(nil))
//   *SymPtr              pointer to an element selected by a symbolic index
//   *Map                 maps (nil map = (*Map)(nil))
//   Iface                interfaces
//   *ssa.Function, *Closure, *ssa.Builtin   function values
//   Tuple                multiple results
//   *Iter                range iterators
//   Opaque               values of unmodelled libraries
type Value interface{}

type Array []Value
type Struct []Value
type Tuple []Value

type Iface struct {
	T types.Type
	V Value
}

type Closure struct {
	Fn  *ssa.Function
	Env []Value
}

type Opaque struct {
	Tag string
}

// Str is an immutable string. B != nil means some bytes are symbolic
// (each element an 8-bit term); otherwise S holds the bytes.
type Str struct {
	S string
	B []*sym.Term
}

func (s Str) Len() int {
	if s.B != nil {
		return len(s.B)
	}
	return len(s.S)
}

func (s Str) Concrete() bool { return s.B == nil }

func (m *Machine) strBytes(s Str) []*sym.Term {
	if s.B != nil {
		return s.B
	}
	out := make([]*sym.Term, len(s.S))
	for i := 0; i < len(s.S); i++ {
		out[i] = m.ctx.Const(8, uint64(s.S[i]))
	}
	return out
}

func mkStr(b []*sym.Term) Str {
	all := true
	for _, t := range b {
		if !t.IsConst() {
			all = false
			break
		}
	}
	if all {
		var sb strings.Builder
		for _, t := range b {
			sb.WriteByte(byte(t.Val))
		}
		return Str{S: sb.String()}
	}
	if b == nil {
		b = []*sym.Term{}
	}
	return Str{B: b}
}

// SymPtr addresses cells[idx] (then the sub-path below it) for symbolic idx.
type SymPtr struct {
	Cells []Value
	Idx   *sym.Term // already known to be < len(Cells) on this path
	Sub   []int     // field / element indices below the selected cell
}

type mapEntry struct {
	K, V    Value
	deleted bool
}

type Map struct {
	KeyT    types.Type
	entries []*mapEntry
	index   map[interface{}]int // canonical concrete key -> entry index
	n       int
}

type Iter struct {
	kind  int // 0 string, 1 map
	str   Str
	pos   int
	m     *Map
	snap  []*mapEntry
}

// ---------- type helpers ----------

var sizes = types.SizesFor("gc", "amd64")

func intWidth(t types.Type) (w int, signed bool, ok bool) {
	b, isB := t.Underlying().(*types.Basic)
	if !isB {
		return 0, false, false
	}
	switch b.Kind() {
	case types.Int8:
		return 8, true, true
	case types.Int16:
		return 16, true, true
	case types.Int32:
		return 32, true, true
	case types.Int64, types.Int, types.UntypedInt, types.UntypedRune:
		return 64, true, true
	case types.Uint8:
		return 8, false, true
	case types.Uint16:
		return 16, false, true
	case types.Uint32:
		return 32, false, true
	case types.Uint64, types.Uint, types.Uintptr:
		return 64, false, true
	}
	return 0, false, false
}

func floatWidth(t types.Type) (int, bool) {
	b, isB := t.Underlying().(*types.Basic)
	if !isB {
		return 0, false
	}
	switch b.Kind() {
	case types.Float32:
		return 32, true
	case types.Float64, types.UntypedFloat:
		return 64, true
	}
	return 0, false
}

func isBool(t types.Type) bool {
	b, ok := t.Underlying().(*types.Basic)
	return ok && b.Info()&types.IsBoolean != 0
}

func isString(t types.Type) bool {
	b, ok := t.Underlying().(*types.Basic)
	return ok && b.Info()&types.IsString != 0
}

func deref(t types.Type) types.Type {
	if p, ok := t.Underlying().(*types.Pointer); ok {
		return p.Elem()
	}
	panic(fmt.Sprintf("deref of non-pointer %v", t))
}

func (m *Machine) zero(t types.Type) Value {
	switch u := t.Underlying().(type) {
	case *types.Basic:
		if w, _, ok := intWidth(t); ok {
			return m.ctx.Const(w, 0)
		}
		if w, ok := floatWidth(t); ok {
			return m.ctx.FConst(w, 0)
		}
		if isBool(t) {
			return m.ctx.False
		}
		if isString(t) {
			return Str{}
		}
		if u.Kind() == types.UnsafePointer {
			return (*Value)(nil)
		}
		if u.Kind() == types.UntypedNil {
			return nil
		}
		if u.Kind() == types.Complex128 || u.Kind() == types.Complex64 {
			return Opaque{"complex"}
		}
		panic(fmt.Sprintf("zero: basic %v", u))
	case *types.Pointer:
		return (*Value)(nil)
	case *types.Slice:
		return []Value(nil)
	case *types.Array:
		a := make(Array, u.Len())
		for i := range a {
			a[i] = m.zero(u.Elem())
		}
		return a
	case *types.Struct:
		s := make(Struct, u.NumFields())
		for i := range s {
			s[i] = m.zero(u.Field(i).Type())
		}
		return s
	case *types.Map:
		return (*Map)(nil)
	case *types.Interface:
		return Iface{}
	case *types.Signature:
		return (*ssa.Function)(nil)
	case *types.Chan:
		return Opaque{"chan"}
	case *types.Tuple:
		tu := make(Tuple, u.Len())
		for i := range tu {
			tu[i] = m.zero(u.At(i).Type())
		}
		return tu
	}
	panic(fmt.Sprintf("zero: %T %v", t, t))
}

func copyVal(v Value) Value {
	switch v := v.(type) {
	case Array:
		a := make(Array, len(v))
		for i := range v {
			a[i] = copyVal(v[i])
		}
		return a
	case Struct:
		s := make(Struct, len(v))
		for i := range v {
			s[i] = copyVal(v[i])
		}
		return s
	}
	return v
}


// ---------- heap with undo log ----------

type undoRec struct {
	cell *Value
	old  Value
	m    *Map // map snapshot instead of a cell
	ment []*mapEntry
	mn   int
	midx map[interface{}]int
}

func (m *Machine) store(p *Value, v Value) {
	if m.logging {
		m.undo = append(m.undo, undoRec{cell: p, old: *p})
	}
	*p = v
}

func (m *Machine) logMap(mp *Map) {
	if !m.logging {
		return
	}
	// snapshot (maps touched on symbolic paths are small)
	ents := make([]*mapEntry, len(mp.entries))
	for i, e := range mp.entries {
		c := *e
		ents[i] = &c
	}
	idx := make(map[interface{}]int, len(mp.index))
	for k, v := range mp.index {
		idx[k] = v
	}
	m.undo = append(m.undo, undoRec{m: mp, ment: ents, mn: mp.n, midx: idx})
}

func (m *Machine) rollback() {
	for i := len(m.undo) - 1; i >= 0; i-- {
		u := m.undo[i]
		if u.m != nil {
			u.m.entries, u.m.n, u.m.index = u.ment, u.mn, u.midx
		} else {
			*u.cell = u.old
		}
	}
	m.undo = m.undo[:0]
}

// ---------- maps ----------

func (m *Machine) newMap(kt types.Type) *Map {
	return &Map{KeyT: kt, index: map[interface{}]int{}}
}

// canonKey returns a hashable canonical form of a fully concrete key.
func canonKey(v Value) (interface{}, bool) {
	switch v := v.(type) {
	case *sym.Term:
		if v.IsConst() {
			return v, true // hash-consed: pointer identity == value identity
		}
		return nil, false
	case Str:
		if v.Concrete() {
			return "s:" + v.S, true
		}
		return nil, false
	case *Value:
		return v, true
	case Iface:
		if v.T == nil {
			return "nil-iface", true
		}
		k, ok := canonKey(v.V)
		if !ok {
			return nil, false
		}
		return fmt.Sprintf("i:%s:%v", types.TypeString(v.T, nil), keyStr(k)), true
	case Struct:
		var sb strings.Builder
		sb.WriteString("st{")
		for _, f := range v {
			k, ok := canonKey(f)
			if !ok {
				return nil, false
			}
			sb.WriteString(keyStr(k))
			sb.WriteByte(',')
		}
		sb.WriteByte('}')
		return sb.String(), true
	case Array:
		var sb strings.Builder
		sb.WriteString("ar[")
		for _, f := range v {
			k, ok := canonKey(f)
			if !ok {
				return nil, false
			}
			sb.WriteString(keyStr(k))
			sb.WriteByte(',')
		}
		sb.WriteByte(']')
		return sb.String(), true
	}
	return nil, false
}

func keyStr(k interface{}) string {
	switch k := k.(type) {
	case *sym.Term:
		return fmt.Sprintf("t%d.%d:%x.%x", k.Sort.K, k.Sort.W, k.Hi, k.Val)
	case string:
		return k
	case *Value:
		return fmt.Sprintf("p%p", k)
	}
	return fmt.Sprint(k)
}

// mapFind returns the live entry for key (forking on symbolic comparisons).
func (m *Machine) mapFind(mp *Map, key Value) *mapEntry {
	if mp == nil {
		return nil
	}
	if ck, ok := canonKey(key); ok && mp.n == 0 {
		if i, hit := mp.index[ck]; hit {
			return mp.entries[i]
		}
		return nil
	}
	for _, e := range mp.entries {
		if e.deleted {
			continue
		}
		eq := m.equals(mp.KeyT, e.K, key)
		if m.path.Branch(eq) {
			return e
		}
	}
	return nil
}

func (m *Machine) mapSet(mp *Map, key, val Value) {
	if mp == nil {
		m.panicRT("assignment to entry in nil map")
	}
	e := m.mapFind(mp, key)
	m.logMap(mp)
	if e != nil {
		e.V = copyVal(val)
		return
	}
	ne := &mapEntry{K: copyVal(key), V: copyVal(val)}
	mp.entries = append(mp.entries, ne)
	if ck, ok := canonKey(key); ok {
		mp.index[ck] = len(mp.entries) - 1
	} else {
		mp.n++ // number of entries with symbolic keys: index no longer decides
	}
}

func (m *Machine) mapDelete(mp *Map, key Value) {
	if mp == nil {
		return
	}
	e := m.mapFind(mp, key)
	if e == nil {
		return
	}
	m.logMap(mp)
	e.deleted = true
	if ck, ok := canonKey(e.K); ok {
		delete(mp.index, ck)
	}
}

func (mp *Map) length() int {
	if mp == nil {
		return 0
	}
	n := 0
	for _, e := range mp.entries {
		if !e.deleted {
			n++
		}
	}
	return n
}
