package gosym

import (
	"fmt"
	"os"
	"go/token"
	"go/types"
	"strings"

	"golang.org/x/tools/go/ssa"

	"verif/engine/sym"
)

type targetPanic struct{ v Value }
type exitPanic struct{ code *sym.Term }

type fnInfo struct {
	index map[ssa.Value]int
	n     int
}

type Intrinsic func(m *Machine, fr *frame, args []Value) Value

type Machine struct {
	Prog     *ssa.Program
	ctx      *sym.Ctx
	ex       *Explorer
	path     *Path
	globals  map[*ssa.Global]*Value
	undo     []undoRec
	logging  bool
	fninfo   map[*ssa.Function]*fnInfo
	intr     map[string]Intrinsic
	opaque   map[string]bool // package paths whose functions are not executed
	inited   map[*ssa.Package]bool
	errStrT  types.Type // *errors.errorString
	Trace    bool
	HarnessP map[string]bool // package paths that carry vf* intrinsics
	depth    int
	InInit   bool

	WasmFiles map[string]string // module name -> .wasm file (E2)
	wasmMods  map[string]*wasmModule
	wasmInsts []*wasmInst
}

type deferred struct {
	fn   Value
	args []Value
	tail *deferred
}

type frame struct {
	m         *Machine
	caller    *frame
	fn        *ssa.Function
	block     *ssa.BasicBlock
	prevBlock *ssa.BasicBlock
	env       []Value
	info      *fnInfo
	defers    *deferred
	result    Value
	panicking bool
	panicVal  interface{}
}

func NewMachine(prog *ssa.Program, ex *Explorer) *Machine {
	m := &Machine{Prog: prog, ctx: ex.Ctx, ex: ex, globals: map[*ssa.Global]*Value{},
		fninfo: map[*ssa.Function]*fnInfo{}, intr: map[string]Intrinsic{}, opaque: map[string]bool{},
		inited: map[*ssa.Package]bool{}, HarnessP: map[string]bool{}}
	for _, p := range defaultOpaque {
		m.opaque[p] = true
	}
	registerIntrinsics(m)
	registerBig(m)
	registerWasm(m)
	return m
}

var defaultOpaque = []string{"fmt", "os", "reflect", "runtime", "sync", "sync/atomic", "syscall", "time", "log",
	"io/ioutil", "encoding/json", "regexp", "bufio", "math/big", "math/rand", "unsafe", "strconv", "io/fs",
	"os/exec", "net", "net/http", "context", "runtime/debug", "internal/bytealg", "internal/cpu",
	"internal/abi", "internal/race", "internal/godebug", "internal/byteorder", "testing", "flag", "math",
	"internal/reflectlite", "internal/oserror", "internal/itoa", "unique", "iter", "text/tabwriter"}

// packages whose initialisers need reflection and set nothing the harnesses read
var skipInit = map[string]bool{"errors": true, "internal/poll": true}

func (m *Machine) isOpaquePkg(p *ssa.Package) bool {
	if p == nil {
		return false
	}
	return m.opaque[p.Pkg.Path()]
}

func (m *Machine) info(fn *ssa.Function) *fnInfo {
	if fi, ok := m.fninfo[fn]; ok {
		return fi
	}
	fi := &fnInfo{index: map[ssa.Value]int{}}
	add := func(v ssa.Value) {
		fi.index[v] = fi.n
		fi.n++
	}
	for _, p := range fn.Params {
		add(p)
	}
	for _, fv := range fn.FreeVars {
		add(fv)
	}
	for _, b := range fn.Blocks {
		for _, in := range b.Instrs {
			if v, ok := in.(ssa.Value); ok {
				add(v)
			}
		}
	}
	m.fninfo[fn] = fi
	return fi
}

func (fr *frame) get(key ssa.Value) Value {
	switch key := key.(type) {
	case nil:
		return nil
	case *ssa.Function:
		return key
	case *ssa.Builtin:
		return key
	case *ssa.Const:
		return fr.m.constValue(key)
	case *ssa.Global:
		return fr.m.global(key)
	}
	if i, ok := fr.info.index[key]; ok {
		return fr.env[i]
	}
	panic(fmt.Sprintf("get: no value for %T: %v", key, key.Name()))
}

func (fr *frame) set(key ssa.Value, v Value) {
	fr.env[fr.info.index[key]] = v
}

func (m *Machine) global(g *ssa.Global) *Value {
	if p, ok := m.globals[g]; ok {
		return p
	}
	cell := new(Value)
	*cell = m.zero(deref(g.Type()))
	m.globals[g] = cell
	return cell
}

func (m *Machine) panicRT(msg string) {
	panic(targetPanic{Iface{T: m.rtErrType(), V: Str{S: msg}}})
}

func (m *Machine) rtErrType() types.Type {
	if p := m.Prog.ImportedPackage("runtime"); p != nil {
		if t := p.Type("errorString"); t != nil {
			return t.Object().Type()
		}
	}
	return types.Typ[types.String]
}

// ---------- loads and stores ----------

func navigate(v Value, sub []int) Value {
	for _, i := range sub {
		switch a := v.(type) {
		case Struct:
			v = a[i]
		case Array:
			v = a[i]
		default:
			panic("navigate")
		}
	}
	return v
}

func navigateCell(p *Value, sub []int) *Value {
	for _, i := range sub {
		switch a := (*p).(type) {
		case Struct:
			p = &a[i]
		case Array:
			p = &a[i]
		default:
			panic("navigateCell")
		}
	}
	return p
}

// mergeIte builds ite(c, a, b) over whole values when they are scalar trees.
func (m *Machine) mergeIte(c *sym.Term, a, b Value) (Value, bool) {
	switch av := a.(type) {
	case *sym.Term:
		bv, ok := b.(*sym.Term)
		if !ok || av.Sort != bv.Sort {
			return nil, false
		}
		return m.ctx.Ite(c, av, bv), true
	case Struct:
		bv, ok := b.(Struct)
		if !ok || len(av) != len(bv) {
			return nil, false
		}
		out := make(Struct, len(av))
		for i := range av {
			r, ok := m.mergeIte(c, av[i], bv[i])
			if !ok {
				return nil, false
			}
			out[i] = r
		}
		return out, true
	case Array:
		bv, ok := b.(Array)
		if !ok || len(av) != len(bv) {
			return nil, false
		}
		out := make(Array, len(av))
		for i := range av {
			r, ok := m.mergeIte(c, av[i], bv[i])
			if !ok {
				return nil, false
			}
			out[i] = r
		}
		return out, true
	case Str:
		bv, ok := b.(Str)
		if !ok || av.Len() != bv.Len() {
			return nil, false
		}
		if av.Concrete() && bv.Concrete() && av.S == bv.S {
			return av, true
		}
		ab, bb := m.strBytes(av), m.strBytes(bv)
		out := make([]*sym.Term, len(ab))
		for i := range ab {
			out[i] = m.ctx.Ite(c, ab[i], bb[i])
		}
		return mkStr(out), true
	case *Value:
		if bv, ok := b.(*Value); ok && bv == av {
			return av, true
		}
	case *Map:
		if bv, ok := b.(*Map); ok && bv == av {
			return av, true
		}
	case *ssa.Function:
		if bv, ok := b.(*ssa.Function); ok && bv == av {
			return av, true
		}
	case Iface:
		if bv, ok := b.(Iface); ok {
			if av.T == nil && bv.T == nil {
				return av, true
			}
			if av.T != nil && bv.T != nil && types.Identical(av.T, bv.T) {
				r, ok := m.mergeIte(c, av.V, bv.V)
				if ok {
					return Iface{av.T, r}, true
				}
			}
		}
	case []Value:
		if bv, ok := b.([]Value); ok {
			if av == nil && bv == nil {
				return av, true
			}
			if len(av) == len(bv) && cap(av) == cap(bv) && (len(av) == 0 || &av[0] == &bv[0]) {
				return av, true
			}
		}
	}
	return nil, false
}

func (m *Machine) symLoad(sp *SymPtr) Value {
	n := len(sp.Cells)
	w := sp.Idx.Sort.W
	r := copyVal(navigate(sp.Cells[n-1], sp.Sub))
	ok := true
	for i := n - 2; i >= 0 && ok; i-- {
		var nv Value
		nv, ok = m.mergeIte(m.ctx.Eq(sp.Idx, m.ctx.Const(w, uint64(i))), navigate(sp.Cells[i], sp.Sub), r)
		if ok {
			r = nv
		}
	}
	if ok {
		return r
	}
	i := m.path.Concretize(sp.Idx, "symbolic index of non-scalar element")
	return copyVal(navigate(sp.Cells[i], sp.Sub))
}

func (m *Machine) symStore(sp *SymPtr, v Value) {
	w := sp.Idx.Sort.W
	// check mergeability first
	news := make([]Value, len(sp.Cells))
	ok := true
	for i := range sp.Cells {
		old := navigate(sp.Cells[i], sp.Sub)
		news[i], ok = m.mergeIte(m.ctx.Eq(sp.Idx, m.ctx.Const(w, uint64(i))), v, old)
		if !ok {
			break
		}
	}
	if !ok {
		i := m.path.Concretize(sp.Idx, "symbolic index store of non-scalar element")
		m.store(navigateCell(&sp.Cells[i], sp.Sub), copyVal(v))
		return
	}
	for i := range sp.Cells {
		m.store(navigateCell(&sp.Cells[i], sp.Sub), news[i])
	}
}

func (m *Machine) load(t types.Type, addr Value) Value {
	switch p := addr.(type) {
	case *Value:
		if p == nil {
			m.panicRT("runtime error: invalid memory address or nil pointer dereference")
		}
		return copyVal(*p)
	case *SymPtr:
		return m.symLoad(p)
	case nil:
		m.panicRT("runtime error: invalid memory address or nil pointer dereference")
	}
	panic(fmt.Sprintf("load from %T", addr))
}

// storeInPlace assigns an aggregate element by element so that addresses of fields and elements taken
// before the store (&x.f; x = T{...}; use of the address) keep referring to the variable.
func (m *Machine) storeInPlace(p *Value, v Value) {
	switch nv := v.(type) {
	case Struct:
		if old, ok := (*p).(Struct); ok && len(old) == len(nv) {
			for i := range nv {
				m.storeInPlace(&old[i], nv[i])
			}
			return
		}
	case Array:
		if old, ok := (*p).(Array); ok && len(old) == len(nv) {
			for i := range nv {
				m.storeInPlace(&old[i], nv[i])
			}
			return
		}
	}
	m.store(p, v)
}

func (m *Machine) storeTo(addr Value, v Value) {
	switch p := addr.(type) {
	case *Value:
		if p == nil {
			m.panicRT("runtime error: invalid memory address or nil pointer dereference")
		}
		m.storeInPlace(p, copyVal(v))
		return
	case *SymPtr:
		m.symStore(p, v)
		return
	case nil:
		m.panicRT("runtime error: invalid memory address or nil pointer dereference")
	}
	panic(fmt.Sprintf("store to %T", addr))
}

// indexAddr computes &cells[idx] with bounds check.
func (m *Machine) indexAddr(cells []Value, idx *sym.Term, signed bool) Value {
	n := len(cells)
	if idx.IsConst() {
		var i int64
		if signed {
			i = idx.Int64()
		} else {
			if idx.Val > 1<<62 {
				i = -1
			} else {
				i = int64(idx.Val)
			}
		}
		if i < 0 || i >= int64(n) {
			m.panicRT(fmt.Sprintf("runtime error: index out of range [%d] with length %d", i, n))
		}
		return &cells[i]
	}
	inb := m.inBounds(idx, n, signed)
	if !m.path.Branch(inb) {
		m.panicRT(fmt.Sprintf("runtime error: index out of range [symbolic] with length %d", n))
	}
	// narrow by known bits
	lo, hi := idx.URange()
	if hi >= uint64(n) {
		hi = uint64(n - 1)
	}
	if lo == hi {
		return &cells[lo]
	}
	return &SymPtr{Cells: cells[:hi+1], Idx: idx}
}

// inBounds is 0 <= idx < n for an index of idx's width and signedness (n may
// exceed what the index type can hold, e.g. a [256]T indexed by a uint8).
func (m *Machine) inBounds(idx *sym.Term, n int, signed bool) *sym.Term {
	c := m.ctx
	w := idx.Sort.W
	if w < 64 {
		lim := uint64(1) << uint(w)
		if signed {
			lim >>= 1
		}
		if uint64(n) >= lim {
			if signed {
				return c.Sle(c.Const(w, 0), idx)
			}
			return c.True
		}
	}
	return c.Ult(idx, c.Const(w, uint64(n)))
}

// ---------- calls ----------

func (m *Machine) call(caller *frame, fn Value, args []Value, pos token.Pos) Value {
	switch fn := fn.(type) {
	case *ssa.Function:
		if fn == nil {
			m.panicRT("runtime error: invalid memory address or nil pointer dereference (nil func)")
		}
		return m.callSSA(caller, fn, args, nil)
	case *Closure:
		if fn == nil {
			m.panicRT("runtime error: call of nil func")
		}
		return m.callSSA(caller, fn.Fn, args, fn.Env)
	case *ssa.Builtin:
		return m.callBuiltin(caller, fn, args)
	case nil:
		m.panicRT("runtime error: call of nil func")
	}
	panic(fmt.Sprintf("cannot call %T", fn))
}

func fnKey(fn *ssa.Function) string {
	if fn.Origin() != nil {
		return fn.Origin().String()
	}
	return fn.String()
}

func (m *Machine) callSSA(caller *frame, fn *ssa.Function, args []Value, env []Value) Value {
	name := fnKey(fn)
	if fn.Pkg != nil && m.HarnessP[fn.Pkg.Pkg.Path()] && strings.HasPrefix(fn.Name(), "vf") {
		if h, ok := m.intr["vf:"+fn.Name()]; ok {
			return h(m, caller, args)
		}
	}
	if h, ok := m.intr[name]; ok {
		return h(m, &frame{m: m, caller: caller, fn: fn}, args)
	}
	if fn.Name() == "init" && fn.Pkg != nil && fn.Parent() == nil && fn.Signature.Recv() == nil {
		if m.isOpaquePkg(fn.Pkg) || skipInit[fn.Pkg.Pkg.Path()] {
			return nil
		}
		if m.InInit && caller != nil && !m.HarnessP[fn.Pkg.Pkg.Path()] {
			// initialiser of a dependency, called from an importer's init: a failure in it
			// (unmodelled library results, reflection) must not take the harness package down;
			// whatever it left uninitialised shows up as an abort if a harness ever reads it
			return m.protectedInit(caller, fn, args)
		}
	}
	return m.callSSAInner(caller, fn, args, env)
}

func (m *Machine) callSSAInner(caller *frame, fn *ssa.Function, args []Value, env []Value) Value {
	name := fnKey(fn)
	if fn.Blocks == nil {
		if fn.Pkg != nil {
			fn.Pkg.Build()
		}
		if fn.Blocks == nil {
			m.ex.Unsupported[name]++
			m.path.abort("unsupported", "no Go body for "+name)
		}
	}
	pk := fn.Pkg
	if pk == nil && fn.Origin() != nil {
		pk = fn.Origin().Pkg
	}
	if pk != nil && m.isOpaquePkg(pk) {
		if m.InInit {
			// package initialisers run concretely; results of unmodelled library
			// calls become zero values (a harness that later depends on one aborts
			// on the nil dereference or is caught by native replay)
			m.ex.StubsHit["init-skipped:"+name]++
			return m.zeroResults(fn)
		}
		m.ex.Unsupported[name]++
		m.path.abort("unsupported", "call into unmodelled package: "+name)
	}
	if pk != nil && !m.HarnessP[pk.Pkg.Path()] || pk == nil {
		m.ex.Funcs[name]++
	}
	m.depth++
	if m.depth > 2000 {
		if m.ex.Lim.HangSteps > 0 {
			// with a termination budget set, unbounded recursion is reported like a loop that does not end
			m.path.abort("hang", "call depth 2000 exceeded")
		}
		m.path.abort("incomplete", "call depth exceeded")
	}
	defer func() { m.depth-- }()
	fi := m.info(fn)
	fr := &frame{m: m, caller: caller, fn: fn, info: fi, env: make([]Value, fi.n)}
	fr.block = fn.Blocks[0]
	for _, l := range fn.Locals {
		cell := new(Value)
		*cell = m.zero(deref(l.Type()))
		fr.set(l, cell)
	}
	for i, p := range fn.Params {
		fr.set(p, args[i])
	}
	for i, fv := range fn.FreeVars {
		fr.set(fv, env[i])
	}
	for fr.block != nil {
		m.runFrame(fr)
	}
	return fr.result
}

func (m *Machine) protectedInit(caller *frame, fn *ssa.Function, args []Value) (res Value) {
	depth := m.depth
	defer func() {
		if r := recover(); r != nil {
			switch r.(type) {
			case targetPanic, pathAbort:
				m.depth = depth
				m.ex.StubsHit["init-failed:"+fn.Pkg.Pkg.Path()]++
				res = nil
			default:
				panic(r)
			}
		}
	}()
	return m.callSSAInner(caller, fn, args, nil)
}

func (m *Machine) runFrame(fr *frame) {
	defer func() {
		if fr.block == nil {
			return // normal return
		}
		r := recover()
		switch r.(type) {
		case targetPanic:
		default:
			panic(r) // path aborts, exit, interpreter bugs: propagate
		}
		if m.Trace {
			fmt.Fprintf(os.Stderr, "TRACE panic in %s: %s\n", fr.fn, describePanic(r))
		}
		fr.panicking = true
		fr.panicVal = r
		fr.runDefers()
		fr.block = fr.fn.Recover
		if fr.block == nil {
			// no recover block: function returns zero results after a recovered panic
			fr.result = m.zeroResults(fr.fn)
		}
	}()
	for {
		blk := fr.block
		// phis
		i := 0
		if len(blk.Instrs) > 0 {
			if _, isPhi := blk.Instrs[0].(*ssa.Phi); isPhi {
				pred := -1
				for k, p := range blk.Preds {
					if p == fr.prevBlock {
						pred = k
						break
					}
				}
				var tmp []Value
				for ; i < len(blk.Instrs); i++ {
					phi, ok := blk.Instrs[i].(*ssa.Phi)
					if !ok {
						break
					}
					tmp = append(tmp, fr.get(phi.Edges[pred]))
				}
				for k := 0; k < i; k++ {
					fr.set(blk.Instrs[k].(*ssa.Phi), tmp[k])
				}
			}
		}
		jumped := false
		for ; i < len(blk.Instrs); i++ {
			m.path.steps++
			if m.path.steps > m.ex.Lim.MaxSteps {
				m.path.abort("incomplete", "step budget exceeded")
			}
			if m.ex.Lim.HangSteps > 0 && m.path.steps > m.ex.Lim.HangSteps {
				m.path.abort("hang", "step budget for termination exceeded")
			}
			switch m.visit(fr, blk.Instrs[i]) {
			case kReturn:
				return
			case kJump:
				jumped = true
			}
			if jumped {
				break
			}
		}
		if !jumped {
			panic("gosym: block fell through: " + fr.fn.String())
		}
	}
}

func (m *Machine) zeroResults(fn *ssa.Function) Value {
	res := fn.Signature.Results()
	switch res.Len() {
	case 0:
		return nil
	case 1:
		return m.zero(res.At(0).Type())
	}
	t := make(Tuple, res.Len())
	for i := range t {
		t[i] = m.zero(res.At(i).Type())
	}
	return t
}

func (fr *frame) runDefers() {
	for d := fr.defers; d != nil; d = d.tail {
		fr.runDefer(d)
	}
	fr.defers = nil
	if fr.panicking {
		panic(fr.panicVal)
	}
}

func (fr *frame) runDefer(d *deferred) {
	var ok bool
	defer func() {
		if !ok {
			r := recover()
			if _, isT := r.(targetPanic); !isT {
				panic(r)
			}
			fr.panicking = true
			fr.panicVal = r
		}
	}()
	fr.m.call(fr, d.fn, d.args, token.NoPos)
	ok = true
}

var dbgFn = os.Getenv("GOSYM_DBGFN")

type continuation int

const (
	kNext continuation = iota
	kReturn
	kJump
)

func (m *Machine) prepareCall(fr *frame, call *ssa.CallCommon) (Value, []Value) {
	v := fr.get(call.Value)
	var fn Value
	var args []Value
	if call.Method == nil {
		fn = v
	} else {
		recv := v.(Iface)
		if recv.T == nil {
			m.panicRT("runtime error: invalid memory address or nil pointer dereference (method on nil interface)")
		}
		f := m.Prog.LookupMethod(recv.T, call.Method.Pkg(), call.Method.Name())
		if f == nil {
			panic(fmt.Sprintf("method set for dynamic type %v does not contain %s", recv.T, call.Method))
		}
		fn = f
		args = append(args, recv.V)
	}
	for _, a := range call.Args {
		args = append(args, fr.get(a))
	}
	return fn, args
}

func (m *Machine) visit(fr *frame, instr ssa.Instruction) continuation {
	if dbgFn != "" && fr.fn.Name() == dbgFn {
		defer func() {
			if v, ok := instr.(ssa.Value); ok {
				fmt.Fprintf(os.Stderr, "DBG %s = %s  => %v\n", v.Name(), instr, fr.env[fr.info.index[v]])
			} else {
				fmt.Fprintf(os.Stderr, "DBG %s\n", instr)
			}
		}()
	}
	c := m.ctx
	switch instr := instr.(type) {
	case *ssa.DebugRef:
	case *ssa.UnOp:
		fr.set(instr, m.unop(instr, fr.get(instr.X)))
	case *ssa.BinOp:
		fr.set(instr, m.binop(instr.Op, instr.X.Type(), instr.Y.Type(), fr.get(instr.X), fr.get(instr.Y), instr))
	case *ssa.Call:
		fn, args := m.prepareCall(fr, &instr.Call)
		fr.set(instr, m.call(fr, fn, args, instr.Pos()))
	case *ssa.ChangeInterface:
		fr.set(instr, fr.get(instr.X))
	case *ssa.ChangeType:
		fr.set(instr, fr.get(instr.X))
	case *ssa.Convert:
		fr.set(instr, m.conv(instr.Type(), instr.X.Type(), fr.get(instr.X)))
	case *ssa.MultiConvert:
		fr.set(instr, m.conv(instr.Type(), instr.X.Type(), fr.get(instr.X)))
	case *ssa.SliceToArrayPointer:
		sl := fr.get(instr.X).([]Value)
		n := int(deref(instr.Type()).Underlying().(*types.Array).Len())
		if len(sl) < n {
			m.panicRT("runtime error: cannot convert slice to array pointer: length too small")
		}
		m.path.abort("unsupported", "slice to array pointer")
	case *ssa.MakeInterface:
		fr.set(instr, Iface{T: instr.X.Type(), V: fr.get(instr.X)})
	case *ssa.Extract:
		fr.set(instr, fr.get(instr.Tuple).(Tuple)[instr.Index])
	case *ssa.Slice:
		fr.set(instr, m.slice(instr, fr.get(instr.X), fr.get(instr.Low), fr.get(instr.High), fr.get(instr.Max)))
	case *ssa.Return:
		switch len(instr.Results) {
		case 0:
		case 1:
			fr.result = fr.get(instr.Results[0])
		default:
			res := make(Tuple, len(instr.Results))
			for i, r := range instr.Results {
				res[i] = fr.get(r)
			}
			fr.result = res
		}
		fr.block = nil
		return kReturn
	case *ssa.RunDefers:
		fr.runDefers()
	case *ssa.Panic:
		panic(targetPanic{fr.get(instr.X)})
	case *ssa.Store:
		m.storeTo(fr.get(instr.Addr), fr.get(instr.Val))
	case *ssa.If:
		succ := 1
		if m.path.Branch(m.term(fr.get(instr.Cond))) {
			succ = 0
		}
		fr.prevBlock, fr.block = fr.block, fr.block.Succs[succ]
		return kJump
	case *ssa.Jump:
		fr.prevBlock, fr.block = fr.block, fr.block.Succs[0]
		return kJump
	case *ssa.Defer:
		fn, args := m.prepareCall(fr, &instr.Call)
		fr.defers = &deferred{fn: fn, args: args, tail: fr.defers}
	case *ssa.Alloc:
		if !instr.Heap {
			// locals were pre-allocated; re-zero in loops
			old := fr.get(instr).(*Value)
			m.store(old, m.zero(deref(instr.Type())))
		} else {
			cell := new(Value)
			*cell = m.zero(deref(instr.Type()))
			fr.set(instr, cell)
		}
	case *ssa.MakeSlice:
		ln := m.asInt(fr.get(instr.Len), "make len")
		cp := m.asInt(fr.get(instr.Cap), "make cap")
		if ln < 0 || cp < ln || cp > 1<<24 {
			m.panicRT("runtime error: makeslice: len out of range")
		}
		et := instr.Type().Underlying().(*types.Slice).Elem()
		sl := make([]Value, cp)
		for i := range sl {
			sl[i] = m.zero(et)
		}
		fr.set(instr, sl[:ln])
	case *ssa.MakeMap:
		fr.set(instr, m.newMap(instr.Type().Underlying().(*types.Map).Key()))
	case *ssa.MakeChan:
		if m.InInit {
			// package initialisers of unrelated dependencies: the channel is never used by a harness
			m.ex.StubsHit["init-skipped:make(chan)"]++
			fr.set(instr, Opaque{"chan"})
			break
		}
		m.path.abort("unsupported", "channels")
	case *ssa.Range:
		fr.set(instr, m.rangeIter(fr.get(instr.X), instr.X.Type()))
	case *ssa.Next:
		fr.set(instr, m.next(fr.get(instr.Iter).(*Iter), instr))
	case *ssa.FieldAddr:
		switch p := fr.get(instr.X).(type) {
		case *Value:
			if p == nil {
				m.panicRT("runtime error: invalid memory address or nil pointer dereference")
			}
			fr.set(instr, &(*p).(Struct)[instr.Field])
		case *SymPtr:
			fr.set(instr, &SymPtr{Cells: p.Cells, Idx: p.Idx, Sub: append(append([]int{}, p.Sub...), instr.Field)})
		default:
			panic(fmt.Sprintf("FieldAddr on %T", p))
		}
	case *ssa.Field:
		fr.set(instr, fr.get(instr.X).(Struct)[instr.Field])
	case *ssa.IndexAddr:
		x := fr.get(instr.X)
		idx := m.term(fr.get(instr.Index))
		_, signed, _ := intWidth(instr.Index.Type())
		switch x := x.(type) {
		case []Value:
			fr.set(instr, m.indexAddr(x, idx, signed))
		case *Value:
			if x == nil {
				m.panicRT("runtime error: invalid memory address or nil pointer dereference")
			}
			fr.set(instr, m.indexAddr([]Value((*x).(Array)), idx, signed))
		case *SymPtr:
			if !idx.IsConst() {
				i := m.path.Concretize(x.Idx, "nested symbolic index")
				cell := navigateCell(&x.Cells[i], x.Sub)
				fr.set(instr, m.indexAddr([]Value((*cell).(Array)), idx, signed))
			} else {
				arr := navigate(x.Cells[0], x.Sub).(Array)
				if idx.Val >= uint64(len(arr)) {
					m.panicRT("runtime error: index out of range")
				}
				fr.set(instr, &SymPtr{Cells: x.Cells, Idx: x.Idx, Sub: append(append([]int{}, x.Sub...), int(idx.Val))})
			}
		default:
			panic(fmt.Sprintf("IndexAddr on %T", x))
		}
	case *ssa.Index:
		x := fr.get(instr.X)
		idx := m.term(fr.get(instr.Index))
		_, signed, _ := intWidth(instr.Index.Type())
		switch x := x.(type) {
		case Array:
			p := m.indexAddr([]Value(x), idx, signed)
			fr.set(instr, m.load(nil, p))
		case Str:
			fr.set(instr, m.strIndex(x, idx, signed))
		default:
			panic(fmt.Sprintf("Index on %T", x))
		}
	case *ssa.Lookup:
		fr.set(instr, m.lookup(instr, fr.get(instr.X), fr.get(instr.Index)))
	case *ssa.MapUpdate:
		mp, _ := fr.get(instr.Map).(*Map)
		m.mapSet(mp, fr.get(instr.Key), fr.get(instr.Value))
	case *ssa.TypeAssert:
		fr.set(instr, m.typeAssert(instr, fr.get(instr.X).(Iface)))
	case *ssa.MakeClosure:
		var b []Value
		for _, x := range instr.Bindings {
			b = append(b, fr.get(x))
		}
		fr.set(instr, &Closure{instr.Fn.(*ssa.Function), b})
	case *ssa.Go, *ssa.Send, *ssa.Select:
		if _, isGo := instr.(*ssa.Go); isGo && m.InInit {
			m.ex.StubsHit["init-skipped:go statement"]++
			break
		}
		m.path.abort("unsupported", fmt.Sprintf("concurrency instruction %T", instr))
	default:
		panic(fmt.Sprintf("unexpected instruction %T", instr))
	}
	_ = c
	return kNext
}

func (m *Machine) strIndex(s Str, idx *sym.Term, signed bool) Value {
	c := m.ctx
	n := s.Len()
	if idx.IsConst() {
		i := int64(idx.Val)
		if signed {
			i = idx.Int64()
		}
		if i < 0 || i >= int64(n) || (!signed && idx.Val > 1<<62) {
			m.panicRT(fmt.Sprintf("runtime error: index out of range [%d] with length %d", i, n))
		}
		if s.Concrete() {
			return c.Const(8, uint64(s.S[i]))
		}
		return s.B[i]
	}
	w := idx.Sort.W
	if !m.path.Branch(m.inBounds(idx, n, signed)) {
		m.panicRT("runtime error: index out of range (string)")
	}
	bs := m.strBytes(s)
	r := bs[n-1]
	for i := n - 2; i >= 0; i-- {
		r = c.Ite(c.Eq(idx, c.Const(w, uint64(i))), bs[i], r)
	}
	return r
}

func (m *Machine) slice(instr *ssa.Slice, x, lo, hi, max Value) Value {
	var ln, cp int
	var cells []Value
	var str Str
	isStr := false
	switch x := x.(type) {
	case []Value:
		ln, cp, cells = len(x), cap(x), x
	case Str:
		ln, cp, str, isStr = x.Len(), x.Len(), x, true
	case *Value:
		if x == nil {
			m.panicRT("runtime error: slice of nil array pointer")
		}
		a := []Value((*x).(Array))
		ln, cp, cells = len(a), len(a), a
	default:
		panic(fmt.Sprintf("slice of %T", x))
	}
	l, h, mx := 0, ln, cp
	if lo != nil {
		l = m.asInt(lo, "slice low bound")
	}
	if hi != nil {
		h = m.asInt(hi, "slice high bound")
	}
	if max != nil {
		mx = m.asInt(max, "slice max bound")
	}
	if l < 0 || h < l || mx < h || mx > cp {
		m.panicRT(fmt.Sprintf("runtime error: slice bounds out of range [%d:%d:%d] with capacity %d", l, h, mx, cp))
	}
	if isStr {
		if str.Concrete() {
			return Str{S: str.S[l:h]}
		}
		return mkStr(append([]*sym.Term{}, str.B[l:h]...))
	}
	if cells == nil {
		// nil slice stays nil for [0:0]
		if _, isSl := x.([]Value); isSl {
			return []Value(nil)
		}
	}
	return cells[:cp][l:h:mx]
}

func (m *Machine) lookup(instr *ssa.Lookup, x, idx Value) Value {
	switch x := x.(type) {
	case Str:
		_, signed, _ := intWidth(instr.Index.Type())
		return m.strIndex(x, m.term(idx), signed)
	case *Map:
		e := m.mapFind(x, idx)
		var v Value
		ok := e != nil
		if ok {
			v = copyVal(e.V)
		} else {
			v = m.zero(instr.X.Type().Underlying().(*types.Map).Elem())
		}
		if instr.CommaOk {
			return Tuple{v, m.ctx.Bool(ok)}
		}
		return v
	}
	panic(fmt.Sprintf("lookup on %T", x))
}

func (m *Machine) typeAssert(instr *ssa.TypeAssert, x Iface) Value {
	ok := false
	var v Value
	if it, isI := instr.AssertedType.Underlying().(*types.Interface); isI {
		if x.T != nil && types.Implements(x.T, it) {
			ok, v = true, x
		}
	} else if x.T != nil && types.Identical(x.T, instr.AssertedType) {
		ok, v = true, copyVal(x.V)
	}
	if instr.CommaOk {
		if !ok {
			v = m.zero(instr.AssertedType)
		}
		return Tuple{v, m.ctx.Bool(ok)}
	}
	if !ok {
		m.panicRT(fmt.Sprintf("interface conversion: interface is %v, not %v", x.T, instr.AssertedType))
	}
	return v
}

func (m *Machine) rangeIter(x Value, t types.Type) *Iter {
	switch x := x.(type) {
	case Str:
		return &Iter{kind: 0, str: x}
	case *Map:
		it := &Iter{kind: 1, m: x}
		if x != nil {
			for _, e := range x.entries {
				if !e.deleted {
					it.snap = append(it.snap, e)
				}
			}
		}
		return it
	}
	panic(fmt.Sprintf("range over %T", x))
}

func (m *Machine) next(it *Iter, instr *ssa.Next) Value {
	c := m.ctx
	if it.kind == 0 {
		if it.pos >= it.str.Len() {
			return Tuple{c.False, c.Const(64, 0), c.Const(32, 0)}
		}
		start := it.pos
		var r *sym.Term
		var n int
		r, n = m.decodeRune(it.str, it.pos)
		it.pos += n
		return Tuple{c.True, c.Const(64, uint64(start)), r}
	}
	for it.pos < len(it.snap) {
		e := it.snap[it.pos]
		it.pos++
		if e.deleted {
			continue
		}
		return Tuple{c.True, copyVal(e.K), copyVal(e.V)}
	}
	mt := instr.Iter.(*ssa.Range).X.Type().Underlying().(*types.Map)
	return Tuple{c.False, m.zero(mt.Key()), m.zero(mt.Elem())}
}

func (m *Machine) callBuiltin(caller *frame, fn *ssa.Builtin, args []Value) Value {
	c := m.ctx
	switch fn.Name() {
	case "append":
		if len(args) == 1 {
			return args[0]
		}
		var add []Value
		switch a := args[1].(type) {
		case Str:
			for _, b := range m.strBytes(a) {
				add = append(add, b)
			}
		case []Value:
			add = a
		}
		dst := args[0].([]Value)
		if len(add) == 0 {
			return dst
		}
		n := len(dst)
		if n+len(add) <= cap(dst) {
			out := dst[:n+len(add)]
			// copy with memmove semantics
			tmp := make([]Value, len(add))
			for i := range add {
				tmp[i] = copyVal(add[i])
			}
			for i := range tmp {
				m.store(&out[n+i], tmp[i])
			}
			return out
		}
		newcap := cap(dst) * 2
		if newcap < n+len(add) {
			newcap = n + len(add)
		}
		out := make([]Value, n+len(add), newcap)
		for i := 0; i < n; i++ {
			out[i] = copyVal(dst[i])
		}
		for i := range add {
			out[n+i] = copyVal(add[i])
		}
		// zero the spare capacity with element zero values
		if newcap > n+len(add) {
			et := fn.Type().(*types.Signature).Params().At(0).Type().Underlying().(*types.Slice).Elem()
			full := out[:newcap]
			for i := n + len(add); i < newcap; i++ {
				full[i] = m.zero(et)
			}
		}
		return out
	case "copy":
		dst := args[0].([]Value)
		var src []Value
		switch a := args[1].(type) {
		case Str:
			for _, b := range m.strBytes(a) {
				src = append(src, b)
			}
		case []Value:
			src = a
		}
		n := len(dst)
		if len(src) < n {
			n = len(src)
		}
		tmp := make([]Value, n)
		for i := 0; i < n; i++ {
			tmp[i] = copyVal(src[i])
		}
		for i := 0; i < n; i++ {
			m.store(&dst[i], tmp[i])
		}
		return c.Const(64, uint64(n))
	case "len":
		switch x := args[0].(type) {
		case Str:
			return c.Const(64, uint64(x.Len()))
		case []Value:
			return c.Const(64, uint64(len(x)))
		case Array:
			return c.Const(64, uint64(len(x)))
		case *Value:
			return c.Const(64, uint64(len((*x).(Array))))
		case *Map:
			return c.Const(64, uint64(x.length()))
		}
		panic(fmt.Sprintf("len of %T", args[0]))
	case "cap":
		switch x := args[0].(type) {
		case []Value:
			return c.Const(64, uint64(cap(x)))
		case Array:
			return c.Const(64, uint64(len(x)))
		case *Value:
			return c.Const(64, uint64(len((*x).(Array))))
		}
		panic(fmt.Sprintf("cap of %T", args[0]))
	case "delete":
		mp, _ := args[0].(*Map)
		m.mapDelete(mp, args[1])
		return nil
	case "panic":
		panic(targetPanic{args[0]})
	case "recover":
		return m.doRecover(caller)
	case "print", "println":
		return nil
	case "min", "max":
		r := m.term(args[0])
		t := fn.Type().(*types.Signature).Params().At(0).Type()
		_, signed, isInt := intWidth(t)
		if !isInt {
			m.path.abort("unsupported", "min/max on non-integers")
		}
		for _, a := range args[1:] {
			x := m.term(a)
			var lt *sym.Term
			if signed {
				lt = c.Slt(x, r)
			} else {
				lt = c.Ult(x, r)
			}
			if fn.Name() == "max" {
				lt = c.Not(c.Or(lt, c.Eq(x, r)))
			}
			r = c.Ite(lt, x, r)
		}
		return r
	case "clear":
		switch x := args[0].(type) {
		case *Map:
			if x != nil {
				m.logMap(x)
				x.entries, x.n, x.index = nil, 0, map[interface{}]int{}
			}
			return nil
		}
		m.path.abort("unsupported", "clear on slice")
	case "ssa:wrapnilchk":
		if isNilValue(args[0]) {
			m.panicRT("runtime error: value method called using nil pointer")
		}
		return args[0]
	}
	m.path.abort("unsupported", "builtin "+fn.Name())
	return nil
}

func (m *Machine) doRecover(caller *frame) Value {
	// recover() is effective only when called directly by a deferred function
	// while its caller is panicking.
	if caller != nil && !caller.panicking && caller.caller != nil && caller.caller.panicking {
		pf := caller.caller
		pf.panicking = false
		p := pf.panicVal
		pf.panicVal = nil
		if tp, ok := p.(targetPanic); ok {
			if iv, isI := tp.v.(Iface); isI {
				if iv.T == nil {
					// panic(nil) surfaces as *runtime.PanicNilError since Go 1.21; this also covers variables the
					// runtime fills in by linkname (math/bits.overflowError), which are nil for the executor
					return Iface{T: types.Typ[types.String], V: Str{S: "panic called with nil argument (or a runtime-provided error value)"}}
				}
				return iv
			}
			return Iface{T: types.Typ[types.String], V: tp.v}
		}
	}
	return Iface{}
}
