// Command gosym runs verification harnesses (functions VfH_* under build tag
// verif) of one package of the code under test symbolically.
package main

import (
	"encoding/json"
	"flag"
	"fmt"
	"os"
	"sort"
	"strings"
	"time"

	"verif/engine/gosym"
)

type output struct {
	Pkg      string             `json:"pkg"`
	LoadMS   int64              `json:"load_ms"`
	WallMS   int64              `json:"wall_ms"`
	Solver   string             `json:"solver"`
	Limits   map[string]int64   `json:"limits"`
	Results  []gosym.TaskResult `json:"results"`
	Error    string             `json:"error,omitempty"`
}

func main() {
	repo := flag.String("repo", "/repo", "module root of the code under test")
	overlay := flag.String("overlay", "", "go build overlay JSON ({\"Replace\":{virtual:real}})")
	pkg := flag.String("pkg", "", "import path of the package carrying the harnesses")
	harness := flag.String("harness", "", "comma separated harness function names (default: all VfH_*)")
	jobs := flag.Int("jobs", 16, "parallel workers")
	out := flag.String("out", "", "result JSON")
	solver := flag.String("solver", "z3", "z3 | z3-old | cvc5")
	onlyCase := flag.Int("case", -1, "run only this case")
	maxPaths := flag.Int("maxpaths", 200000, "per task")
	maxDec := flag.Int("maxdecisions", 400, "symbolic decisions per path (unwinding bound)")
	hangSteps := flag.Int64("hangsteps", 0, "when > 0: a path executing more interpreter steps than this is reported as a termination counterexample")
	maxSamples := flag.Int("samples", 8, "path models kept per task for translator validation")
	smtlog := flag.String("smtlog", "", "directory for SMT-LIB2 transcripts")
	taskTO := flag.Duration("tasktimeout", 0, "per task wall budget")
	branchTO := flag.Duration("branchtimeout", 60*time.Second, "")
	assertTO := flag.Duration("asserttimeout", 120*time.Second, "")
	tags := flag.String("tags", "verif", "")
	caseLimit := flag.String("caselimit", "", "per-harness case count limits: VfH_a=5,VfH_b=3 (cases 0..n-1 are run)")
	stubs := flag.String("stubstr", "", "comma separated functions (ssa full names) returning string that are replaced by an opaque placeholder: formatting is not the subject")
	stubz := flag.String("stubzero", "", "comma separated functions (ssa full names) replaced by a stub returning zero values")
	wasm := flag.String("wasm", "", "wasm modules for vfWasmLoad: name=path,name=path")
	transparent := flag.String("transparent", "", "comma-separated packages to execute although they are on the default opaque list")
	trace := flag.Bool("trace", false, "log target panics to stderr")
	flag.Parse()

	o := output{Pkg: *pkg, Solver: *solver}
	fail := func(err error) {
		o.Error = err.Error()
		if *out != "" {
			gosym.WriteJSON(*out, o)
		}
		fmt.Fprintln(os.Stderr, "gosym:", err)
		os.Exit(3)
	}
	ov := map[string]string{}
	if *overlay != "" {
		b, err := os.ReadFile(*overlay)
		if err != nil {
			fail(err)
		}
		var j struct{ Replace map[string]string }
		if err := json.Unmarshal(b, &j); err != nil {
			fail(err)
		}
		ov = j.Replace
	}
	t0 := time.Now()
	prog, _, err := gosym.Load(gosym.LoadConfig{Dir: *repo, Overlay: ov, Tags: *tags, Pkgs: []string{*pkg}})
	if err != nil {
		fail(err)
	}
	o.LoadMS = time.Since(t0).Milliseconds()
	var hs []string
	if *harness != "" {
		hs = strings.Split(*harness, ",")
	} else {
		for _, p := range prog.AllPackages() {
			if p.Pkg.Path() == *pkg {
				for name := range p.Members {
					if strings.HasPrefix(name, "VfH_") {
						hs = append(hs, name)
					}
				}
			}
		}
		sort.Strings(hs)
	}
	lim := gosym.DefaultLimits()
	lim.MaxPaths, lim.MaxDecisions = *maxPaths, *maxDec
	lim.BranchTimeout, lim.AssertTimeout = *branchTO, *assertTO
	lim.HangSteps = *hangSteps
	o.Limits = map[string]int64{"max_paths": int64(lim.MaxPaths), "max_decisions_per_path": int64(lim.MaxDecisions),
		"max_steps_per_path": lim.MaxSteps, "termination_step_budget": lim.HangSteps, "branch_timeout_ms": lim.BranchTimeout.Milliseconds(), "assert_timeout_ms": lim.AssertTimeout.Milliseconds()}
	res, err := gosym.RunAll(prog, *pkg, hs, *onlyCase, gosym.Options{Jobs: *jobs, Solver: *solver, Lim: lim,
		CaseLimit: parseLimits(*caseLimit), StubStr: splitList(*stubs), StubZero: splitList(*stubz), Transparent: splitList(*transparent), WasmFiles: parseKV(*wasm), MaxSamples: *maxSamples, SMTLogDir: *smtlog, TaskTimeout: *taskTO, Trace: *trace})
	if err != nil {
		fail(err)
	}
	o.Results = res
	o.WallMS = time.Since(t0).Milliseconds()
	if *out != "" {
		if err := gosym.WriteJSON(*out, o); err != nil {
			fail(err)
		}
	} else {
		b, _ := json.MarshalIndent(o, "", " ")
		os.Stdout.Write(b)
	}
}

func parseLimits(s string) map[string]int {
	m := map[string]int{}
	for _, kv := range strings.Split(s, ",") {
		if i := strings.IndexByte(kv, '='); i > 0 {
			n := 0
			fmt.Sscanf(kv[i+1:], "%d", &n)
			m[kv[:i]] = n
		}
	}
	return m
}

func splitList(s string) []string {
	if s == "" {
		return nil
	}
	return strings.Split(s, ",")
}

func parseKV(s string) map[string]string {
	m := map[string]string{}
	for _, kv := range splitList(s) {
		if i := strings.IndexByte(kv, '='); i > 0 {
			m[kv[:i]] = kv[i+1:]
		}
	}
	return m
}
