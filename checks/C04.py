"""C04 — wat2wasm emits the module the text describes (E2 wasmsym + E1; partial claim)."""
import os, sys, vlib
sys.path.insert(0, os.path.dirname(os.path.abspath(vlib.__file__)))
import wasmgen

WH = "internal/zzverif/wh"
WB = "internal/zzverif/wbuild"

def run(tier, seed):
    c = vlib.GoCheck("C04", "translation_validation", tier, seed)
    c.assumptions = [
        "claimed part (a): for every numeric instruction of the WAT token list a one-instruction function is written in text, assembled by the tree's wat2wasm, and the resulting binary - read by an independent binary reader and executed symbolically - computes the WebAssembly 1.0 result (or trap) of the instruction written in the text for every operand value; NaN payloads are not compared",
        "claimed part (b): every load/store instruction with four (offset, align) immediate variants (symbolic data, three base addresses), and a hand-written control module: branch depths, br_table with default, backward loop branch, if/else with result, tee/drop/select, direct and indirect calls (with trap), globals, memory.size/grow, i32/i64 constants at LEB128 boundaries",
        "claimed part (c): a declaration module: data strings with every escape form at their offsets, globals of the four types with their initial values, the start function's effect, inline and stand-alone exports, an imported function (index space, arguments) and an imported global, float constants at rounding boundaries, parameter/local indexing, block/loop/if results, nop, memory.copy/fill, unreachable",
        "not claimed: equality of section layout with WABT, the name section, validation of arbitrary modules (no reference assembler or validator in the sandbox)",
    ]
    hfile = os.path.join(vlib.VERIF, "harness/go", WH, "zz_verif_c04.go")
    ops = wasmgen.ops_from_harness(hfile)
    wdir = os.path.join(c.scratch, "wasm")
    os.makedirs(wdir)
    open(os.path.join(wdir, "c04ops.wat"), "w").write(wasmgen.c04_ops_wat(ops))
    open(os.path.join(wdir, "c04mem.wat"), "w").write(wasmgen.c04_mem_wat())
    import shutil
    shutil.copy(os.path.join(vlib.VERIF, "harness/wat/c04_ctl.wat"), os.path.join(wdir, "c04ctl.wat"))
    shutil.copy(os.path.join(vlib.VERIF, "harness/wat/c05_decl.wat"), os.path.join(wdir, "c04decl.wat"))
    open(os.path.join(wdir, "c04types.wat"), "w").write(wasmgen.c04_types_wat())
    ov = vlib.make_overlay(c.scratch, [{"dir": WH, "name": "wh"}, {"dir": WB, "name": "main", "rt": False}])
    mods = ("c04ops", "c04mem", "c04ctl", "c04decl", "c04types")
    failed = vlib.build_wasm_keepgoing(c.scratch, ov, [["wat2wasm", os.path.join(wdir, n + ".wat"), os.path.join(wdir, n + ".wasm")] for n in mods])
    asm_violations = []
    for i, err in failed.items():
        name = mods[i]
        if name in ("c04ctl", "c04decl", "c04types"):
            asm_violations.append((name, "whole-module", err, open(os.path.join(wdir, name + ".wat")).read()))
            continue
        # the tree's assembler rejects (or crashes on) a valid generated module: find the functions responsible,
        # report each as a violation (a valid module must be assembled), and carry on with the others
        text = open(os.path.join(wdir, name + ".wat")).read()
        head, funcs = wasmgen.split_functions(text)
        singles = []
        for k, f in enumerate(funcs):
            pth = os.path.join(wdir, "%s_f%d.wat" % (name, k))
            open(pth, "w").write("\n".join(head + [f, ")"]) + "\n")
            singles.append(["wat2wasm", pth, pth[:-4] + ".wasm"])
        bad = vlib.build_wasm_keepgoing(c.scratch, ov, singles)
        good = [f for k, f in enumerate(funcs) if k not in bad]
        for k, e in bad.items():
            asm_violations.append((name, funcs[k].split('"')[1], e, "\n".join(head + [funcs[k], ")"]) + "\n"))
        open(os.path.join(wdir, name + ".wat"), "w").write("\n".join(head + good + [")"]) + "\n")
        vlib.build_wasm(c.scratch, ov, [["wat2wasm", os.path.join(wdir, name + ".wat"), os.path.join(wdir, name + ".wasm")]])
        c.notes.append("NOTE: %s reassembled without %d function(s) the assembler rejects" % (name, len(bad)))
    import json, re as _re
    for name, fn, err, wat in asm_violations:
        key = "assemble/%s/%s/asm/valid-module-is-assembled" % (name, fn)
        if key in c.known:
            c.known_hits.append((key, c.known[key]))
            continue
        rdir = os.path.join(vlib.VERIF, "replays", "C04")
        os.makedirs(rdir, exist_ok=True)
        rp = os.path.join(rdir, _re.sub(r"[^A-Za-z0-9_.-]", "_", key) + ".json")
        json.dump({"property": "C04", "engine": "wbuild", "label": "asm/valid-module-is-assembled", "function": fn, "error": err, "wat": wat,
                   "cmd": "assemble the text in 'wat' with the tree's wat2wasm (go run ./internal/zzverif/wbuild wat2wasm in.wat out.wasm under the check's overlay)"}, open(rp, "w"), indent=1)
        c.violations.append((key, rp))
    # every assembled module must be accepted by the vendored engine's decoder and validator
    bad = vlib.build_wasm_keepgoing(c.scratch, ov, [["validate", os.path.join(wdir, n + ".wasm")] for n in mods])
    for i, err in bad.items():
        key = "validate/%s/asm/output-is-a-valid-binary" % mods[i]
        if key in c.known:
            c.known_hits.append((key, c.known[key]))
            continue
        rdir = os.path.join(vlib.VERIF, "replays", "C04")
        os.makedirs(rdir, exist_ok=True)
        rp = os.path.join(rdir, _re.sub(r"[^A-Za-z0-9_.-]", "_", key) + ".json")
        json.dump({"property": "C04", "engine": "wbuild", "label": "asm/output-is-a-valid-binary", "function": mods[i], "error": err,
                   "wat": open(os.path.join(wdir, mods[i] + ".wat")).read(), "validate": True,
                   "cmd": "assemble the text in 'wat' with the tree's wat2wasm and load the result with the vendored wazero (wbuild validate)"}, open(rp, "w"), indent=1)
        c.violations.append((key, rp))
    skip = set(fn for _, fn, _, _ in asm_violations)
    vlib.REPLAY_ENV["VF_WASM_DIR"] = wdir
    c.extra_cov["programs"] = len(ops)
    mods = tuple(m for m in mods if m != "c04types" or os.path.exists(os.path.join(wdir, "c04types.wasm")))
    c.run_unit(WH, "wh", harnesses=["VfH_ops", "VfH_mem", "VfH_ctl", "VfH_decl"], extra_pkgs=[{"dir": WB, "name": "main", "rt": False}],
               opts={"wasm": ",".join("%s=%s" % (n, os.path.join(wdir, n + ".wasm")) for n in mods), "samples": 2})
    return c.finish()


def replay(path):
    import json, shutil
    rec = json.load(open(path))
    if rec.get("engine") != "wbuild":
        return vlib.replay_file("C04", path)
    sc = vlib.scratch_dir("C04-replay")
    try:
        ov = vlib.make_overlay(sc, [{"dir": WB, "name": "main", "rt": False}])
        wat = os.path.join(sc, "in.wat")
        open(wat, "w").write(rec["wat"])
        steps = [["wat2wasm", wat, os.path.join(sc, "out.wasm")]] + ([["validate", os.path.join(sc, "out.wasm")]] if rec.get("validate") else [])
        failed = vlib.build_wasm_keepgoing(sc, ov, steps)
        print("; ".join("%s: %s" % (steps[k][0], e) for k, e in failed.items()) or "assembled (and validated) without error")
        print("REPRODUCED" if failed else "NOT-REPRODUCED")
        return 1 if failed else 0
    finally:
        shutil.rmtree(sc, ignore_errors=True)
