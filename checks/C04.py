"""C04 — wat2wasm emits the module the text describes (E2 wasmsym + E1; partial claim)."""
import os, sys, vlib
sys.path.insert(0, os.path.dirname(os.path.abspath(vlib.__file__)))
import wasmgen

WH = "internal/zzverif/wh"
WB = "internal/zzverif/wbuild"

def run(tier, seed):
    c = vlib.GoCheck("C04", "translation_validation", tier, seed)
    c.assumptions = [
        "claimed part (a): for every numeric instruction of the WAT token list a one-instruction function is written in text, assembled by the tree's wat2wasm, and the resulting binary - read by an independent binary reader and executed symbolically - computes the WebAssembly 1.0 result (or trap) of the instruction written in the text for every operand value; NaN payloads are not compared",
        "claimed part (b): every load/store instruction with four (offset, align) immediate variants (symbolic data, three base addresses), and a hand-written control module: branch depths, br_table with default, backward loop branch, if/else with result, tee/drop/select, direct and indirect calls (with trap), globals, memory.size/grow, i32/i64 constants at LEB128 boundaries",
        "not claimed: equality of section layout with WABT, the name section, validation of arbitrary modules (no reference assembler or validator in the sandbox)",
    ]
    hfile = os.path.join(vlib.VERIF, "harness/go", WH, "zz_verif_c04.go")
    ops = wasmgen.ops_from_harness(hfile)
    wdir = os.path.join(c.scratch, "wasm")
    os.makedirs(wdir)
    open(os.path.join(wdir, "c04ops.wat"), "w").write(wasmgen.c04_ops_wat(ops))
    open(os.path.join(wdir, "c04mem.wat"), "w").write(wasmgen.c04_mem_wat())
    import shutil
    shutil.copy(os.path.join(vlib.VERIF, "harness/wat/c04_ctl.wat"), os.path.join(wdir, "c04ctl.wat"))
    ov = vlib.make_overlay(c.scratch, [{"dir": WH, "name": "wh"}, {"dir": WB, "name": "main", "rt": False}])
    vlib.build_wasm(c.scratch, ov, [["wat2wasm", os.path.join(wdir, n + ".wat"), os.path.join(wdir, n + ".wasm")] for n in ("c04ops", "c04mem", "c04ctl")])
    vlib.REPLAY_ENV["VF_WASM_DIR"] = wdir
    c.extra_cov["programs"] = len(ops)
    c.run_unit(WH, "wh", harnesses=["VfH_ops", "VfH_mem", "VfH_ctl"], extra_pkgs=[{"dir": WB, "name": "main", "rt": False}],
               opts={"wasm": ",".join("%s=%s" % (n, os.path.join(wdir, n + ".wasm")) for n in ("c04ops", "c04mem", "c04ctl")), "samples": 2})
    return c.finish()
