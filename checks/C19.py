"""C19 — LEB128 round trip and decoder limits (E1 gosym)."""
import vlib

def run(tier, seed):
    c = vlib.GoCheck("C19", "model_checking", tier, seed)
    c.assumptions = [
        "oracle: uN/sN productions of the WebAssembly binary format written as a reference decoder in the harness (vfRefU/vfRefS)",
        "values: every uint32/int32/int64/uint64 and every 33-bit value; byte strings: every string of length 0..max+1 (6 for 32/33-bit, 11 for 64-bit); longer strings only add unread suffix bytes",
        "fmt.Errorf modelled as an opaque non-nil error (formatting is not the subject)",
    ]
    c.run_unit("internal/wasm/leb128", "leb128")
    return c.finish()
