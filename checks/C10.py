"""C10 — heap allocator never hands out overlapping or out-of-heap memory (E2 wasmsym)."""
import os, vlib

WH = "internal/zzverif/wh"
WB = "internal/zzverif/wbuild"

def run(tier, seed):
    c = vlib.GoCheck("C10", "model_checking", tier, seed)
    nops = 4 if tier == "quick" else 5
    c.assumptions = [
        "module: internal/waroot/malloc/malloc.wat expanded by the Go template and assembled by the tree's wat2wasm exactly as malloc.NewHeap does; configurations: 1 page growing to 2, stack pointer 1024, heap base 4096, fixed-list capacity 0 (disabled), 1, 2 and 100",
        "history: _start, then up to %d operations from the initial heap, each a wa_malloc whose size is 0 or lies in one of eleven 8-byte classes between 1 and 200 or in one of two huge classes (60001.., 70001..: the second huge request does not fit into two pages and must fail without damaging the heap) (class enumerated, position inside the class symbolic) or a wa_free of any live block; after every operation the harness reads the heap and checks the clauses of the property" % nops,
        "bounded history, not an inductive step: heaps that need more than %d operations to build (long free lists, list capacity overflow beyond 2, coalescing of three neighbours) are outside; the copy in waroot/src/runtime/heap_malloc.wat.ws is covered through a compiled Wa program (module rtheap: runtime.malloc/runtime.free exported by text injection, capacity 64, after one warm-up allocation)" % nops,
    ]
    wdir = os.path.join(c.scratch, "wasm")
    os.makedirs(wdir)
    ov = vlib.make_overlay(c.scratch, [{"dir": WH, "name": "wh"}, {"dir": WB, "name": "main", "rt": False}])
    mods = {"malloc_cap0": 0, "malloc_cap1": 1, "malloc_cap2": 2, "malloc_cap100": 100}
    open(os.path.join(wdir, "rtheap.wa"), "w").write("func main {\n}\n")
    vlib.build_wasm(c.scratch, ov, [["malloc", os.path.join(wdir, n + ".wasm"), "1", "2", "1024", "4096", str(cap)] for n, cap in mods.items()]
                    + [["wa-rt", os.path.join(wdir, "rtheap.wa"), os.path.join(wdir, "rtheap.wasm")]])
    mods["rtheap"] = None
    vlib.REPLAY_ENV["VF_WASM_DIR"] = wdir
    opts = {"wasm": ",".join("%s=%s" % (n, os.path.join(wdir, n + ".wasm")) for n in mods), "samples": 1, "maxdecisions": 4000,
            "caselimit": "VfH_heap=%d" % ((nops - 1) * 5 * 14), "maxpaths": 2000000}
    c.bounds["operations_max"] = nops
    c.run_unit(WH, "wh", harnesses=["VfH_heap"], extra_pkgs=[{"dir": WB, "name": "main", "rt": False}], opts=opts)
    return c.finish()
