"""C11 / C12 — automatic memory management of compiled Wa programs (E2 wasmsym, differential run with
released memory overwritten; live-block accounting at loop checkpoints)."""
import os, sys, vlib
sys.path.insert(0, os.path.dirname(os.path.abspath(vlib.__file__)))
import c11gen

WH = "internal/zzverif/wh"
WB = "internal/zzverif/wbuild"


def run_mm(prop, tier, seed, harness, assumptions):
    c = vlib.GoCheck(prop, "translation_validation" if prop == "C11" else "model_checking", tier, seed)
    wa_src, go_src, c11, c12 = c11gen.gen(tier)
    c.assumptions = assumptions(len(c11), len(c12))
    wdir = os.path.join(c.scratch, "wasm")
    os.makedirs(wdir)
    open(os.path.join(wdir, "c11.wa"), "w").write(wa_src)
    gpath = os.path.join(c.scratch, "zz_verif_c11_cases.go")
    open(gpath, "w").write(go_src)
    extra = {os.path.join(vlib.REPO, WH, "zz_verif_c11_cases.go"): gpath}
    ov = vlib.make_overlay(c.scratch, [{"dir": WH, "name": "wh"}, {"dir": WB, "name": "main", "rt": False}], extra)
    vlib.build_wasm(c.scratch, ov, [["wa", os.path.join(wdir, "c11.wa"), os.path.join(wdir, "c11_unused.wasm"), os.path.join(wdir, "c11.wat")]])
    text = open(os.path.join(wdir, "c11.wat")).read()
    try:
        open(os.path.join(wdir, "c11n.wat"), "w").write(c11gen.patch_wat(text, False))
        open(os.path.join(wdir, "c11p.wat"), "w").write(c11gen.patch_wat(text, True))
    except ValueError as e:
        raise vlib.Inconclusive("INSTRUMENTATION-FAILED: " + str(e))
    vlib.build_wasm(c.scratch, ov, [["wat2wasm", os.path.join(wdir, n + ".wat"), os.path.join(wdir, n + ".wasm")] for n in ("c11n", "c11p")])
    vlib.REPLAY_ENV["VF_WASM_DIR"] = wdir
    c.extra_cov["programs"] = len(c11) if prop == "C11" else len(c12)
    c.run_unit(WH, "wh", harnesses=[harness], extra_pkgs=[{"dir": WB, "name": "main", "rt": False}], extra_overlay=extra,
               opts={"wasm": ",".join("%s=%s" % (n, os.path.join(wdir, n + ".wasm")) for n in ("c11n", "c11p")), "samples": 1,
                     "maxdecisions": 6000, "tasktimeout": "240s"})
    return c.finish()


def run(tier, seed):
    return run_mm("C11", tier, seed, "VfH_c11", lambda n11, n12: [
        "program dimension: %d template functions that allocate (arrays/structs/slices/strings/closures/interfaces/defer templates of C01 and map operation scripts of C13), enumerated; input dimension: all parameter values, symbolic" % n11,
        "the program is compiled by the current tree; two binaries are derived from the compiled WAT by patching runtime.HeapAlloc/HeapFree (text patch, fails closed if their shape changes): both count allocations and releases, one additionally overwrites a block with 0xA5 at the moment it is released; both are executed symbolically on the same arguments",
        "decided: the overwriting run does not trap and returns the same value (use after release, release of live data, reliance on unzeroed recycled memory change it), releases never outnumber allocations, both runs allocate and release equally often",
        "not decided: that every block is eventually released (leaks are C12's subject), double release that happens not to corrupt anything observable, programs outside the template set",
    ])
