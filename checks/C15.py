"""C15 — constant folding agrees with exact arithmetic (E1 gosym)."""
import vlib

def run(tier, seed):
    c = vlib.GoCheck("C15", "model_checking", tier, seed)
    c.assumptions = [
        "oracle: math/big (native replay: the real package; symbolic side: exact 128-bit bit-vectors, sufficient for one operation on operands of at most 64 bits)",
        "integer constants only: int64Val fast paths and the intVal fallback for one operand in [2^63, 2^64); rational/float/complex/string constants are outside the claim",
        "division and remainder: divisor != 0 assumed (the type checker reports division by zero before folding); reference quotient is the int64 truncated quotient except MinInt64 / -1 = 2^63",
        "shift counts 0..63",
        "representableConst: operand is the exact sum of two symbolic int64 (range [-2^64, 2^64-2], covering int64Val and both signs of intVal), every integer BasicKind, Wa sizes (int/uint/uintptr 32 bit)",
        "trusted arithmetic fact: bvsmul no-overflow predicate <=> the 128-bit product of two sign-extended int64 fits int64 (used to keep the 128-bit multiplier out of the queries)",
    ]
    c.run_unit("internal/constant", "constant")
    c.run_unit("internal/types", "types", harnesses=["VfH_repr"])
    return c.finish()
