"""C18 — PC-relative hi/lo relocation splitting is exact (E1 gosym, full 32/64-bit domains)."""
import vlib

def run(tier, seed):
    c = vlib.GoCheck("C18", "model_checking", tier, seed)
    c.assumptions = [
        "RISC-V clause read as the property states it: 32-bit recombination of (sext20(hi)<<12)+lo; RV64 sign-extension reading is a diagnostic only",
        "LoongArch CPU semantics of pcalau12i/addi.d written in the harness from the reference manual (vfLa64CPU)",
        "LoongArch range: target - page(pc) in [-2^31, 2^31-2049], the part of +-2GiB that any (hi20,lo12) pair can reach",
        "solver z3 5.1.0 over QF_BV; bounded only by the machine types (no unwinding involved: loop-free code)",
    ]
    c.run_unit("internal/native/pcrel", "pcrel")
    return c.finish()
