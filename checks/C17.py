"""C17 — native encoders agree with independent disassemblers (E1 gosym)."""
import os, vlib

def run(tier, seed):
    c = vlib.GoCheck("C17", "model_checking", tier, seed)
    c.assumptions = [
        "independent decoders: golang.org/x/arch riscv64asm and loong64asm (copied to /verif/third_party/xarch, compiled into overlay-only packages internal/zzverif/*), executed symbolically as ordinary Go",
        "operation correspondence by mnemonic name after case/'.'/'_' normalisation",
        "every value of Rd/Rs1/Rs2/Rs3 (int16 range) and every int32 immediate per mnemonic; RV32 and RV64 modes",
        "x86-64 (p9x86) outside the claim; arm64 encoder is panic(TODO), nothing is accepted",
        "fmt.Errorf/Sprintf are opaque stubs",
    ]
    which = os.environ.get("VERIF_C17", "riscv,loong64").split(",")
    if "riscv" in which:
        c.run_unit("internal/native/riscv", "riscv", third_party=[("xarch/riscv64asm", "internal/zzverif/riscv64asm")],
                   opts={"samples": 2 if tier == "quick" else 6})
    if "loong64" in which:
        c.run_unit("internal/native/loong64", "loong64", third_party=[("xarch/loong64asm", "internal/zzverif/loong64asm")],
                   opts={"samples": 2 if tier == "quick" else 6, "maxdecisions": 3000})
    return c.finish()
