"""C25 — SLIP framing delivers exactly the packets that were sent (E1 gosym)."""
import vlib

def run(tier, seed):
    c = vlib.GoCheck("C25", "model_checking", tier, seed)
    c.assumptions = [
        "1 or 2 packets of 1..3 symbolic bytes each, written with slip.Writer into one stream; the reader's transport is a harness io.Reader over that stream (the reader asks for 1 byte at a time, so finer chunking changes nothing)",
        "zero-length-read variant: the transport returns (0, nil) once at a symbolic read index (serial time-out); the caller concatenates prefixes as SlipMuxReader does",
        "SLIPMUX: frame byte symbolic within its class (diagnostic, IPv4, IPv6, other valid), payload 0..2 symbolic bytes (IP: payload starts with the frame byte), CoAP: 4-byte message with 1 symbolic byte",
        "FCS-16: one table step equals the bitwise CRC-16/X-25 step for every (fcs, byte); whole-message CRC reasoning beyond the 7-byte CoAP frame is outside",
        "sync.Mutex is a no-op (single-threaded harness)",
    ]
    c.run_unit("internal/3rdparty/slip", "slip", opts={"maxdecisions": 3000, "samples": 4})
    return c.finish()
