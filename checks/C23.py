"""C23 — source positions survive serialisation and point at the right place (E1 gosym)."""
import vlib

def run(tier, seed):
    c = vlib.GoCheck("C23", "model_checking", tier, seed)
    c.assumptions = [
        "two files in one FileSet with 0..4 and 0..2 fully symbolic content bytes; line tables built by SetLinesForContent (VfH_pos) or by AddLine as the scanner does (VfH_addline, 0..5 bytes)",
        "oracle: counting newlines and bytes in the content up to the offset",
        "serialisation: FileSet.Write into an in-memory serializedFileSet and FileSet.Read from it (the encode/decode closures are the identity); the JSON text produced by encoding/json (reflection) and run-time panic messages of compiled programs are outside",
        "sync.Mutex/RWMutex are no-ops (single-threaded harness)",
    ]
    c.run_unit("internal/token", "token", opts={"maxdecisions": 2000, "samples": 4})
    return c.finish()
