"""C14 — Wa standard-library ports agree with the Go functions they were ported from (E2 wasmsym vs E1 gosym on GOROOT)."""
import os, sys, vlib
sys.path.insert(0, os.path.dirname(os.path.abspath(vlib.__file__)))
import c14gen

WH = "internal/zzverif/wh"
WB = "internal/zzverif/wbuild"


def run(tier, seed):
    c = vlib.GoCheck("C14", "translation_validation", tier, seed)
    wa_src, go_src, cases = c14gen.gen(tier)
    c.assumptions = [
        "function dimension: %d wrapper functions over the Wa standard library, enumerated (see notes); input dimension: all argument values of the declared types, symbolic" % len(cases),
        "oracle: the Go standard library function of the installed GOROOT that the Wa function is a port of, executed by the Go symbolic executor (pinned to the real Go compiler by native replay); domain = arguments on which the Go function does not panic",
        "the Wa side is the WebAssembly binary the current tree compiles from waroot/src (the package's init has run), executed by the symbolic WebAssembly interpreter",
    ]
    wdir = os.path.join(c.scratch, "wasm")
    os.makedirs(wdir)
    open(os.path.join(wdir, "c14.wa"), "w").write(wa_src)
    gpath = os.path.join(c.scratch, "zz_verif_c14_gen.go")
    open(gpath, "w").write(go_src)
    extra = {os.path.join(vlib.REPO, WH, "zz_verif_c14_gen.go"): gpath}
    ov = vlib.make_overlay(c.scratch, [{"dir": WH, "name": "wh"}, {"dir": WB, "name": "main", "rt": False}], extra)
    vlib.build_wasm(c.scratch, ov, [["wa", os.path.join(wdir, "c14.wa"), os.path.join(wdir, "c14.wasm")]])
    vlib.REPLAY_ENV["VF_WASM_DIR"] = wdir
    c.extra_cov["programs"] = len(cases)
    c.run_unit(WH, "wh", harnesses=["VfH_c14"], extra_pkgs=[{"dir": WB, "name": "main", "rt": False}], extra_overlay=extra,
               opts={"wasm": "c14=" + os.path.join(wdir, "c14.wasm"), "samples": 2, "maxdecisions": 4000, "tasktimeout": "240s" if tier == "quick" else "3000s", "transparent": "strconv"})
    return c.finish()
