"""C21 — language-server document sync matches the client's document (E1 gosym)."""
import vlib

def run(tier, seed):
    c = vlib.GoCheck("C21", "model_checking", tier, seed)
    n = 3 if tier == "quick" else 4
    c.assumptions = [
        "document: 0..%d fully symbolic bytes (quick additionally: every 4-byte document that is a single supplementary-plane character), valid UTF-8 (ASCII, 2-, 3- and 4-byte characters), carriage return only as part of CRLF; one incremental change with symbolic start/end (line, character) each in 0..6 and a replacement text of 0..2 symbolic bytes; plus the full-document change" % n,
        "oracle: the client's model written in the harness - lines split at newline, characters counted in UTF-16 code units, edit applied between the two positions",
        "positions inside a surrogate pair or between CR and LF: no claim (clients must not send them)",
        "DocumentURI.Path (net/url parsing) is an opaque stub; logging and SyncFile are not reached by changedText",
        "sequences of several notifications are covered one step at a time: each change is applied to an arbitrary current document",
    ]
    c.bounds["doc_bytes_max"] = n
    c.run_unit("internal/lsp", "lsp", opts={"maxdecisions": 3000, "samples": 3,
               "caselimit": "VfH_change=%d" % (15 if tier == "quick" else 18),
               "stubstr": "(wa-lang.org/wa/internal/lsp/protocol.DocumentURI).Path"})
    return c.finish()
