"""C08 — front ends never crash or hang on arbitrary input (E1 gosym; scanners and format dispatch)."""
import vlib

def run(tier, seed):
    c = vlib.GoCheck("C08", "model_checking", tier, seed)
    ncase = 10 if tier == "quick" else 82
    c.assumptions = [
        "claimed part: the three scanners (Wa/Wz, WAT, native assembly) driven as their callers drive them (Init, then Scan until EOF) on every input of 0..1 arbitrary bytes and every 2-byte input starting with an ASCII byte (quick), plus every other 2-byte input and every 3-byte ASCII input (thorough), both with and without an error handler / comment mode: no panic, and EOF within 2n+4 Scan calls (progress); format.File's language dispatch for 9 file names x 0..2 arbitrary content bytes with the formatters stubbed",
        "outside: parsers, type checker, loader (pointer-rich, recursion) and longer inputs - stated as not covered, not replaced by another technique",
    ]
    lim = {"caselimit": "VfH_scan=%d" % ncase, "maxdecisions": 6000, "samples": 2}
    c.run_unit("internal/scanner", "scanner", opts=lim)
    c.run_unit("internal/wat/scanner", "scanner", opts=lim)
    c.run_unit("internal/native/scanner", "scanner", opts=lim)
    c.run_unit("internal/format", "format", opts={"maxdecisions": 6000, "samples": 2,
               "stubzero": "wa-lang.org/wa/internal/format.SourceFile,wa-lang.org/wa/internal/format._SourceFile_wz"})
    return c.finish()
