"""C08 — front ends never crash or hang on arbitrary input (E1 gosym; scanners and format dispatch)."""
import vlib

def run(tier, seed):
    c = vlib.GoCheck("C08", "model_checking", tier, seed)
    ncase = 10 if tier == "quick" else 82
    c.assumptions = [
        "claimed part: the three scanners (Wa/Wz, WAT, native assembly) driven as their callers drive them (Init, then Scan until EOF) on every input of 0..1 arbitrary bytes and every 2-byte input starting with an ASCII byte (quick), plus every other 2-byte input and every 3-byte ASCII input (thorough), both with and without an error handler / comment mode: no panic, and EOF within 2n+4 Scan calls (progress); format.File's language dispatch for 9 file names x 0..2 arbitrary content bytes with the formatters stubbed",
        "language detection and format dispatch additionally on inputs of 1024, 1025 and 4097 bytes (a body of line comments, so that all three scanners walk the whole input, ending in one arbitrary byte) under every file-name class",
        "Wa and Wz parsers (parser.ParseFile, all errors, comments) on token skeletons: every keyword and operator of the token table at top level and at statement position (quick), plus at expression position and between two operands (thorough), in both surface syntaxes, followed by one arbitrary byte: no panic, and termination within 5 million interpreter steps (a path that exceeds the budget is replayed natively under a 20 s limit and reported only if it is still running)",
        "WAT parser (parser.ParseModule) with two arbitrary bytes at each of 29 operand / declaration positions of a small module: no panic, termination within the step budget",
        "native-assembly parser (parser.ParseFile) for LoongArch64, RISC-V 64 and x86-64/Unix (quick) plus RISC-V 32 and x86-64/Windows (thorough) at 14 directive, operand, label and instruction positions in the GAS and the Chinese syntax: the first byte enumerated from 15 token-class representatives, the second arbitrary among the non-letters; float literals are cut at big.Float.SetString (stub: not ok); no panic, termination within the step budget",
        "type checker (parse, then types.Config.Check) on 13 x 8 declaration skeletons: a struct type that mentions itself through each kind of element type (directly, pointer, slice, array with an arbitrary length byte, map key/value, function result, nested struct, interface) combined with comparison, assignment, len, copy, field read, use as map key, boxing and array comparison: no panic, termination (recursion deeper than 2000 frames counts as non-termination)",
        "outside: the rest of the type checker's input space, the loader (pointer-rich, recursion), and inputs that are not of these shapes - stated as not covered, not replaced by another technique",
    ]
    lim = {"caselimit": "VfH_scan=%d" % ncase, "maxdecisions": 6000, "samples": 2}
    c.run_unit("internal/scanner", "scanner", opts=lim)
    c.run_unit("internal/wat/scanner", "scanner", opts=lim)
    c.run_unit("internal/native/scanner", "scanner", opts=lim)
    c.run_unit("internal/format", "format", opts={"maxdecisions": 6000, "samples": 2,
               "stubzero": "wa-lang.org/wa/internal/format.SourceFile,wa-lang.org/wa/internal/format._SourceFile_wz"})
    # parsers on token skeletons (every keyword/operator x 8 positions x one arbitrary byte), with a termination budget
    c.run_unit("internal/parser", "parser", harnesses=["VfH_parse_tok"] if tier == "quick" else ["VfH_parse_tok", "VfH_parse_tok_more"],
               opts={"maxdecisions": 6000, "samples": 1, "hangsteps": 5000000, "transparent": "strconv"})
    # WAT parser on declaration/operand skeletons with two arbitrary bytes
    c.run_unit("internal/wat/parser", "parser", harnesses=["VfH_wat_pos"],
               opts={"maxdecisions": 6000, "samples": 1, "hangsteps": 5000000, "transparent": "strconv", "stubstr": "fmt.Sprintf"})
    # native-assembly parser per CPU on directive / operand / instruction skeletons
    c.run_unit("internal/native/parser", "parser", harnesses=["VfH_nasm_pos"] if tier == "quick" else ["VfH_nasm_pos", "VfH_nasm_pos_more"],
               opts={"maxdecisions": 6000, "samples": 1, "hangsteps": 5000000, "transparent": "strconv", "stubstr": "fmt.Sprintf",
                     "stubzero": "(*math/big.Float).SetString", "tasktimeout": "400s"})
    # type checker on self-referential declaration skeletons
    c.run_unit("internal/types", "types", harnesses=["VfH_tc_decl"],
               opts={"maxdecisions": 6000, "samples": 1, "hangsteps": 20000000, "transparent": "strconv", "stubstr": "fmt.Sprintf", "tasktimeout": "400s"})
    return c.finish()
