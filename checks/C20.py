"""C20 — wemu executes instructions with the architecture's semantics (E1 gosym)."""
import os, vlib

def run(tier, seed):
    c = vlib.GoCheck("C20", "model_checking", tier, seed)
    c.assumptions = [
        "reference: RV32I/RV64I/M semantics written in the harness from the RISC-V unprivileged specification (instruction patterns from the spec listing, not from Wa's table)",
        "state: all 32 integer registers, PC, f0/f1 bit patterns, the instruction word (constrained to one mnemonic's pattern) and the loaded memory value are symbolic; RAM is a harness device behind the real device.Bus",
        "riscv.AsmSyntax/AsString (error-message formatting) are opaque stubs", "supported = StepRun returns nil without panicking; one step; CSR/privileged/atomic/FP instructions, MULH* (no 128-bit reference) and multi-step behaviour are outside",
    ]
    src = os.path.join(vlib.VERIF, "harness/go/internal/native/wemu/riscv64/zz_verif_c20.go")
    gen = os.path.join(c.scratch, "rv32_zz_verif_c20.go")
    open(gen, "w").write(open(src).read().replace("package riscv64", "package riscv32", 1))
    which = os.environ.get("VERIF_C20", "riscv64,riscv32,loong64").split(",")
    if "riscv64" in which:
        c.run_unit("internal/native/wemu/riscv64", "riscv64", opts={"samples": 3, "maxdecisions": 3000, "branchtimeout": "30s", "stubstr": "wa-lang.org/wa/internal/native/riscv.AsmSyntax,wa-lang.org/wa/internal/native/riscv.AsString"})
    if "riscv32" in which:
        c.run_unit("internal/native/wemu/riscv32", "riscv32", opts={"samples": 3, "maxdecisions": 3000, "branchtimeout": "30s", "stubstr": "wa-lang.org/wa/internal/native/riscv.AsmSyntax,wa-lang.org/wa/internal/native/riscv.AsString"},
                   extra_overlay={os.path.join(vlib.REPO, "internal/native/wemu/riscv32/zz_verif_c20.go"): gen})
    if "loong64" in which:
        c.run_unit("internal/native/wemu/loong64", "loong64",
                   extra_pkgs=[{"dir": "internal/native/loong64", "name": "loong64", "rt": True}],
                   third_party=[("xarch/loong64asm", "internal/zzverif/loong64asm")],
                   opts={"samples": 3, "maxdecisions": 3000, "branchtimeout": "30s",
                         "stubstr": "wa-lang.org/wa/internal/native/loong64.AsmSyntax"})
    return c.finish()
