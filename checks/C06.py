"""C06 — dead-code stripping (--optimize) preserves behaviour (E2 wasmsym equivalence on a corpus + independent reachability)."""
import importlib.util, os, vlib
spec = importlib.util.spec_from_file_location("c05", os.path.join(vlib.VERIF, "checks", "C05.py"))
c05 = importlib.util.module_from_spec(spec)
spec.loader.exec_module(c05)


def run(tier, seed):
    return c05.run_equiv("C06", tier, seed, "watstrip", "the stripped", c05.ASSUME + [
        "the stripped text must assemble; stripping it again must change nothing; for modules whose functions are all named, the set of functions kept must equal the set reachable from exports, the start function and table elements computed independently (text-level call graph over the canonically printed original)",
    ])


def replay(path):
    return c05.replay_equiv("C06", "watstrip", path)
