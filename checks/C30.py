"""C30 — `wa test` verdicts match the tests' contracts (E1 gosym with environment stubs)."""
import os, re, vlib

REDIRECT = [
    (r"loader\.LoadProgram\(", "vfLoadProgram("), (r"compiler_wat\.New\(\)\.Compile\(", "vfCompile("),
    (r"prog\.Fset\.ToJson\(\)", "vfToJson()"), (r"watutil\.Wat2Wasm\(", "vfWat2Wasm("),
    (r"wazero\.BuildModule\(", "vfBuildModule("), (r"m\.RunFunc\(", "vfRunFunc(m, "), (r"m\.Close\(\)", "vfClose(m)"),
    (r"time\.Now\(\)", "vfNow()"), (r"time\.Since\(", "vfSince("), (r"filepath\.Match\(", "vfMatch("),
    (r"os\.Exit\(", "vfExit("), (r"fmt\.Printf\(", "vfPrintf("), (r"\.Round\(time\.Millisecond\)", ""),
]

def transform(src):
    n_total = 0
    for pat, rep in REDIRECT:
        src, n = re.subn(pat, rep, src)
        n_total += n
    src += "\n// keep imports used after redirection\nvar _ = loader.LoadProgram\nvar _ = compiler_wat.New\nvar _ = watutil.Wat2Wasm\nvar _ = os.Exit\nvar _ = filepath.Match\nvar _ = time.Now\nvar _ = fmt.Printf\n"
    return src, n_total

def run(tier, seed):
    c = vlib.GoCheck("C30", "model_checking", tier, seed)
    c.assumptions = [
        "real code: apptest.runTest, regenerated from /repo at run time with environment calls redirected to stubs: loader.LoadProgram, compiler_wat Compile, FileSet.ToJson, watutil.Wat2Wasm, wazero.BuildModule/RunFunc/Close, time.Now/Since, filepath.Match (always matches), os.Exit, fmt.Printf (records whether a line starting with FAIL / ok is printed)",
        "1..2 test functions and 0..1 example; each is an ordinary or an expected-panic test, with or without expected output; running it ends with no error, exit(code) with a symbolic code, or another error, and prints the expected text, other text, or nothing",
        "contract: ordinary test passes iff no error and (no expectation or output equal); expected-panic test passes iff it exits with a non-zero code and prints 'panic: <message>'",
    ]
    src = open(os.path.join(vlib.REPO, "internal/app/apptest/apptest.go")).read()
    gen, n = transform(src)
    if n < 20:
        raise vlib.Inconclusive("HARNESS-BUILD-FAILED: apptest.go no longer has the call sites the C30 redirection expects (%d matched)" % n)
    gpath = os.path.join(c.scratch, "apptest_redirected.go")
    open(gpath, "w").write(gen)
    c.extra_cov["redirected_call_sites"] = n
    d = "internal/app/apptest"
    c.run_unit(d, "apptest", opts={"samples": 4}, extra_overlay={os.path.join(vlib.REPO, d, "apptest.go"): gpath})
    return c.finish()
