"""C24 — build-tag expressions evaluate with Boolean semantics (E1 gosym)."""
import vlib

def run(tier, seed):
    c = vlib.GoCheck("C24", "model_checking", tier, seed)
    n = 4 if tier == "quick" else 5
    c.assumptions = [
        "expression text: every string of 0..%d bytes over the alphabet {space ( ) ! & | a b c} after the '#wa:build ' prefix (VfH_expr); every string of 0..%d arbitrary bytes (VfH_anybytes)" % (n, 2 if tier == "quick" else 3),
        "token-level harness: every sequence of up to %d tokens over {a b ( ) ! && ||} (enumerated, concrete execution), tag assignment symbolic" % 7,
        "tag assignment: an arbitrary 16-bit truth table indexed by a hash of the tag text, the same function on both sides",
        "oracle: an independent precedence-climbing evaluator over the bytes written in the harness (|| < && < !, parentheses, no double negation)",
        "file selection by the loader (isSkipedAstFile and the directory walk) is outside this check",
    ]
    c.bounds["expr_bytes_max"] = n
    ncases = 1 + 9 * 4 + (0 if tier == "quick" else 81 * (n - 4))
    c.run_unit("internal/loader/buildtag", "buildtag",
               opts={"maxdecisions": 2500, "caselimit": "VfH_expr=%d,VfH_anybytes=%d,VfH_tokens=%d" % (ncases, 3 if tier == "quick" else 4, 7 + 49 * (7 - 1)), "samples": 3})
    return c.finish()
