"""C13 — runtime maps behave as finite maps (compiled Wa map code on E2 vs Go map on E1, bounded histories)."""
import os, sys, vlib
sys.path.insert(0, os.path.dirname(os.path.abspath(vlib.__file__)))
import c13gen

WH = "internal/zzverif/wh"
WB = "internal/zzverif/wbuild"


def run(tier, seed):
    c = vlib.GoCheck("C13", "model_checking", tier, seed)
    wa_src, go_src, cases = c13gen.gen(tier)
    c.assumptions = [
        "program dimension: %d generated functions = key kind (i32, string, i64, struct in quick; plus u8, f64 without NaN, bool, interface holding int or string in thorough) x operation script of five operations (insert, overwrite, read-modify-write, delete, comma-ok lookup on three keys; len after every operation), followed by a range loop (each visited key must be found with the visited value; count and a commutative sum of values are compared) and lookups of all three keys" % len(cases),
        "input dimension: the three key values are symbolic: they may coincide and come in any order, so every tree shape three keys can produce in the runtime's ordered map is covered",
        "oracle: the same function in Go with Go's built-in map, executed by the Go symbolic executor; histories longer than five operations and more than three distinct keys are outside the bound",
    ]
    wdir = os.path.join(c.scratch, "wasm")
    os.makedirs(wdir)
    open(os.path.join(wdir, "c13.wa"), "w").write(wa_src)
    gpath = os.path.join(c.scratch, "zz_verif_c13_gen.go")
    open(gpath, "w").write(go_src)
    extra = {os.path.join(vlib.REPO, WH, "zz_verif_c13_gen.go"): gpath}
    ov = vlib.make_overlay(c.scratch, [{"dir": WH, "name": "wh"}, {"dir": WB, "name": "main", "rt": False}], extra)
    vlib.build_wasm(c.scratch, ov, [["wa", os.path.join(wdir, "c13.wa"), os.path.join(wdir, "c13.wasm")]])
    vlib.REPLAY_ENV["VF_WASM_DIR"] = wdir
    c.extra_cov["programs"] = len(cases)
    c.run_unit(WH, "wh", harnesses=["VfH_c13"], extra_pkgs=[{"dir": WB, "name": "main", "rt": False}], extra_overlay=extra,
               opts={"wasm": "c13=" + os.path.join(wdir, "c13.wasm"), "samples": 2, "maxdecisions": 4000, "tasktimeout": "240s"})
    return c.finish()
