"""C29 — `wa run` exit status reflects how the program ended (E1 gosym with environment stubs)."""
import os, re, vlib

REDIRECT = [
    (r"c\.Args\(\)\.First\(\)", "vfArgFirst()"), (r"c\.Args\(\)\.Slice\(\)", "vfArgSlice()"), (r"c\.NArg\(\)", "vfNArg()"),
    (r"c\.Bool\(", "vfFlagBool("), (r"c\.String\(", "vfFlagString("), (r"appbase\.BuildOptions\(c\)", "vfBuildOptions()"),
    (r"os\.Getwd\(\)", "vfGetwd()"), (r"os\.ReadFile\(", "vfReadFile("), (r"os\.Remove\(", "vfRemove("), (r"os\.Exit\(", "vfExit("),
    (r"watutil\.Wat2Wasm\(", "vfWat2Wasm("), (r"appbuild\.BuildApp\(", "vfBuildApp("),
    (r"wazero\.HasUnknownConsoleImportFunc\(", "vfHasUnknown("), (r"wazero\.BuildModule\(", "vfBuildModule("),
    (r"m\.RunMain\(", "vfRunMain(m, "), (r"m\.Close\(\)", "vfClose(m)"), (r"wazero\.RunWasm\(", "vfRunWasm("),
    (r"http\.ListenAndServe\(", "vfListen("),
]

def transform(src):
    n_total = 0
    for pat, rep in REDIRECT:
        src, n = re.subn(pat, rep, src)
        n_total += n
    src += "\n// keep imports used after redirection\nvar _ = appbuild.BuildApp\nvar _ = watutil.Wat2Wasm\nvar _ = os.Exit\nvar _ = wazero.RunWasm\nvar _ = http.ListenAndServe\n"
    return src, n_total

def run(tier, seed):
    c = vlib.GoCheck("C29", "model_checking", tier, seed)
    c.assumptions = [
        "real code: apprun.CmdRunAction and runWasm, regenerated from /repo at run time with environment calls redirected to stubs: cli.Context accessors, os.Getwd/ReadFile/Remove/Exit, watutil.Wat2Wasm, appbuild.BuildApp, wazero.BuildModule/RunMain/RunWasm/Close/HasUnknownConsoleImportFunc, http.ListenAndServe",
        "each stub returns an arbitrary member of its contract chosen by symbolic inputs: success or error; the program ends by returning, by exit(code) with a symbolic 32-bit code (sys.ExitError), or with another error (trap, panic)",
        "process status = argument of os.Exit if called, else 1 if main reports the error returned by cli.App.Run (read from main.go by the driver), else 0",
        "web mode (HTTP server) is outside the claim; inputs: .wa, .wz, directory, .wat, .wasm; 0..2 extra arguments",
    ]
    src = open(os.path.join(vlib.REPO, "internal/app/apprun/apprun.go")).read()
    gen, n = transform(src)
    if n < 12:
        raise vlib.Inconclusive("HARNESS-BUILD-FAILED: apprun.go no longer has the call sites the C29 redirection expects (%d matched)" % n)
    gpath = os.path.join(c.scratch, "apprun_redirected.go")
    open(gpath, "w").write(gen)
    main_src = open(os.path.join(vlib.REPO, "main.go")).read()
    handles = re.search(r"cliApp\.Run\(os\.Args\)\s*;?\s*err\s*!=\s*nil|err\s*:?=\s*cliApp\.Run\(os\.Args\)", main_src) is not None
    cpath = os.path.join(c.scratch, "zz_verif_c29_main.go")
    open(cpath, "w").write("//go:build verif\n\npackage apprun\n\n// generated from main.go: does main act on the error returned by cli.App.Run?\nconst vfMainHandlesError = %s\n" % ("true" if handles else "false"))
    c.extra_cov["redirected_call_sites"] = n
    c.extra_cov["main_handles_run_error"] = handles
    d = "internal/app/apprun"
    c.run_unit(d, "apprun", opts={"samples": 4}, extra_overlay={
        os.path.join(vlib.REPO, d, "apprun.go"): gpath,
        os.path.join(vlib.REPO, d, "zz_verif_c29_main.go"): cpath})
    return c.finish()
