"""C05 — WAT printer output re-parses to the same module (E2 wasmsym equivalence + byte identity on a corpus)."""
import json, os, re, shutil, sys, vlib
sys.path.insert(0, os.path.dirname(os.path.abspath(vlib.__file__)))
import wasmgen, c01gen

WH = "internal/zzverif/wh"
WB = "internal/zzverif/wbuild"
ML = "internal/waroot/malloc"
PKGS = [{"dir": WH, "name": "wh"}, {"dir": WB, "name": "main", "rt": False}, {"dir": ML, "name": "malloc", "rt": False}]

# i32 arguments (addresses, sizes, loop counts, table indices) of these exports are assumed < max; all others unconstrained
ARGMAX = [("mem/", 96), ("align/", 96), ("ctl/loop", 6), ("ctl/grow", 3), ("heap/", 96), ("prog/runtime.", 96),
          ("prog/runtime.Block.", 2), ("prog/runtime.Block.HeapAlloc", 4), ("prog/t_loop", 6), ("prog/t_recursion", 7),
          ("decl/data", 300), ("decl/misc", 8), ("named/", 8), ("index/", 8), ("indexelem/", 4)]
NAMES = ["ops", "mem", "align", "ctl", "decl", "named", "index", "index0", "indexelem", "reexp", "heap", "prog"]
HAND = {"ctl": "c04_ctl.wat", "decl": "c05_decl.wat", "named": "c06_named.wat", "index": "c06_index.wat", "index0": "c06_index0.wat", "reexp": "c06_reexport.wat", "indexelem": "c06_index_elem.wat"}


def corpus(scratch, wdir, ov):
    hfile = os.path.join(vlib.VERIF, "harness/go", WH, "zz_verif_c04.go")
    open(os.path.join(wdir, "ops.wat"), "w").write(wasmgen.c04_ops_wat(wasmgen.ops_from_harness(hfile)))
    open(os.path.join(wdir, "mem.wat"), "w").write(wasmgen.c04_mem_wat())
    open(os.path.join(wdir, "align.wat"), "w").write(wasmgen.c05_align_wat())
    for n, f in HAND.items():
        shutil.copy(os.path.join(vlib.VERIF, "harness/wat", f), os.path.join(wdir, n + ".wat"))
    wa_src, _, _ = c01gen.gen("quick")
    open(os.path.join(wdir, "prog.wa"), "w").write(wa_src)
    vlib.build_wasm(scratch, ov, [["malloc-wat", os.path.join(wdir, "heap.wat"), "1", "2", "1024", "4096", "2"],
                                  ["wa", os.path.join(wdir, "prog.wa"), os.path.join(wdir, "prog_unused.wasm"), os.path.join(wdir, "prog.wat")]])


def build_all(scratch, wdir, ov, transform_cmd, twice):
    """original -> wasm; transform(original) -> wasm; returns {step index: error} for failed steps plus the step list."""
    cmds = []
    for n in NAMES:
        cmds.append(["wat2wasm", os.path.join(wdir, n + ".wat"), os.path.join(wdir, n + ".wasm")])
        cmds.append([transform_cmd, os.path.join(wdir, n + ".wat"), os.path.join(wdir, n + "_t.wat")])
        cmds.append(["wat2wasm", os.path.join(wdir, n + "_t.wat"), os.path.join(wdir, n + "_t.wasm")])
        cmds.append(["watfmt" if twice else transform_cmd, os.path.join(wdir, n + "_t.wat"), os.path.join(wdir, n + "_tt.wat")])
        cmds.append(["watfmt", os.path.join(wdir, n + ".wat"), os.path.join(wdir, n + "_f.wat")])
    return cmds, vlib.build_wasm_keepgoing(scratch, ov, cmds)


def pairs_file(scratch, names):
    pairs = os.path.join(scratch, "zz_verif_equiv_pairs.go")
    open(pairs, "w").write("//go:build verif\n\npackage wh\n\nvar vfEquivPairs = []struct{ a, b string }{\n" +
                           "".join('\t{"%s", "%s_t"},\n' % (n, n) for n in names) + "}\n\n" +
                           "var vfEquivArgMax = []struct {\n\tpfx string\n\tmax uint32\n}{\n" +
                           "".join('\t{"%s", %d},\n' % kv for kv in ARGMAX) + "}\n")
    return {os.path.join(vlib.REPO, WH, "zz_verif_equiv_pairs.go"): pairs}


def side_violation(c, key, rec):
    if key in c.known:
        c.known_hits.append((key, c.known[key]))
        return
    rdir = os.path.join(vlib.VERIF, "replays", c.prop)
    os.makedirs(rdir, exist_ok=True)
    rp = os.path.join(rdir, re.sub(r"[^A-Za-z0-9_.-]", "_", key) + ".json")
    rec = dict(rec, property=c.prop, engine="wbuild", key=key)
    json.dump(rec, open(rp, "w"), indent=1)
    c.violations.append((key, rp))


def reachable_functions(fmt_text):
    """Independent call-graph reachability over the printed text (every function named): roots are exported
    functions, the start function and table elements.  Tolerant of indentation and of folded call forms."""
    funcs, cur = {}, None
    roots = set()
    for line in fmt_text.splitlines():
        m = re.match(r"\s*\(func\s+\$([^\s()]+)", line)
        if m:
            cur = m.group(1)
            funcs[cur] = set()
            if "(export " in line:
                roots.add(cur)
        m = re.search(r"\(start\s+\$([^\s()]+)\)", line)
        if m:
            roots.add(m.group(1))
        if re.match(r"\s*\(elem\b", line):
            roots.update(re.findall(r"\$([^\s()]+)", line))
        for m in re.finditer(r'\(export\s+"[^"]*"\s+\(func\s+\$([^\s()]+)\)\)', line):
            roots.add(m.group(1))
        if cur is not None:
            for m in re.finditer(r"\bcall\s+\$([^\s()]+)", line):
                funcs[cur].add(m.group(1))
    seen, todo = set(), [r for r in roots if r in funcs]
    while todo:
        f = todo.pop()
        if f in seen:
            continue
        seen.add(f)
        todo += [g for g in funcs[f] if g in funcs]
    return seen, set(funcs)


def repo_files(c, wdir, ov, transform_cmd, prop):
    """The WAT files the repository itself carries (test data, examples) that the tree assembles: textual side checks
    only (same binary / idempotence for the printer; output assembles / idempotence for the stripper)."""
    import glob
    files = sorted(glob.glob(os.path.join(vlib.REPO, "internal/wat/**/testdata/*.wat"), recursive=True) +
                   glob.glob(os.path.join(vlib.REPO, "waroot/examples/**/*.wat"), recursive=True))
    rdir = os.path.join(wdir, "repo")
    os.makedirs(rdir)
    pre = vlib.build_wasm_keepgoing(c.scratch, ov, [["wat2wasm", f, os.path.join(rdir, "m%d.wasm" % i)] for i, f in enumerate(files)])
    ok = [(i, f) for i, f in enumerate(files) if i not in pre]
    cmds = []
    for i, f in ok:
        b = os.path.join(rdir, "m%d" % i)
        cmds += [[transform_cmd, f, b + "_t.wat"], ["wat2wasm", b + "_t.wat", b + "_t.wasm"], [transform_cmd, b + "_t.wat", b + "_tt.wat"]]
    failed = vlib.build_wasm_keepgoing(c.scratch, ov, cmds)
    for k, (i, f) in enumerate(ok):
        rel = os.path.relpath(f, vlib.REPO)
        b = os.path.join(rdir, "m%d" % i)
        errs = {j: failed[3 * k + j] for j in range(3) if 3 * k + j in failed}
        src = open(f).read()
        if 0 in errs:
            side_violation(c, "transform/repo:%s/%s/accepts-valid-module" % (rel, transform_cmd), {"module": rel, "step": transform_cmd, "error": errs[0], "wat": src})
            continue
        if 1 in errs:
            side_violation(c, "transform/repo:%s/%s/output-is-a-valid-module" % (rel, transform_cmd), {"module": rel, "step": "wat2wasm of the output", "error": errs[1], "wat": src})
            continue
        label = "print" if prop == "C05" else "strip"
        if prop == "C05" and open(b + ".wasm", "rb").read() != open(b + "_t.wasm", "rb").read():
            side_violation(c, "print/repo:%s/watfmt/same-binary" % rel, {"module": rel, "step": "compare wat2wasm(src) with wat2wasm(print(parse(src)))", "wat": src})
        if 2 in errs or open(b + "_t.wat").read() != open(b + "_tt.wat").read():
            side_violation(c, "%s/repo:%s/%s/idempotent" % (label, rel, transform_cmd), {"module": rel, "step": "transform twice", "error": errs.get(2, "texts differ"), "wat": src})
    c.notes.append("NOTE: %d WAT files carried by the repository checked textually (%d more are not assembled by the tree and were skipped)" % (len(ok), len(files) - len(ok)))
    return len(ok)


def run_equiv(prop, tier, seed, transform_cmd, what, assumptions):
    c = vlib.GoCheck(prop, "translation_validation", tier, seed)
    c.assumptions = assumptions
    wdir = os.path.join(c.scratch, "wasm")
    os.makedirs(wdir)
    ov = vlib.make_overlay(c.scratch, PKGS)
    corpus(c.scratch, wdir, ov)
    cmds, failed = build_all(c.scratch, wdir, ov, transform_cmd, prop == "C05")
    usable = []
    for i, n in enumerate(NAMES):
        errs = {k - 5 * i: failed[k] for k in range(5 * i, 5 * i + 5) if k in failed}
        if 0 in errs or 4 in errs:
            raise vlib.Inconclusive("corpus module %s is not assembled / printed by the tree: %s" % (n, errs.get(0) or errs.get(4)))
        src = open(os.path.join(wdir, n + ".wat")).read()
        if 1 in errs:
            side_violation(c, "transform/%s/%s/accepts-valid-module" % (n, transform_cmd), {"module": n, "step": transform_cmd, "error": errs[1], "wat": src})
            continue
        if 2 in errs:
            side_violation(c, "transform/%s/%s/output-is-a-valid-module" % (n, transform_cmd),
                           {"module": n, "step": "wat2wasm of the output", "error": errs[2], "wat": src})
            continue
        usable.append(n)
        a, b = open(os.path.join(wdir, n + ".wasm"), "rb").read(), open(os.path.join(wdir, n + "_t.wasm"), "rb").read()
        c.notes.append("NOTE: %s: %s binary %s the original (%d vs %d bytes)" % (n, what, "is byte-identical to" if a == b else "differs from", len(b), len(a)))
        t1 = open(os.path.join(wdir, n + "_t.wat")).read()
        if prop == "C05":
            if a != b:
                side_violation(c, "print/%s/watfmt/same-binary" % n, {"module": n, "step": "compare wat2wasm(src) with wat2wasm(print(parse(src)))", "wat": src})
            if 3 in errs or t1 != open(os.path.join(wdir, n + "_tt.wat")).read():
                side_violation(c, "print/%s/watfmt/idempotent" % n, {"module": n, "step": "print twice", "error": errs.get(3, "texts differ"), "wat": src})
        else:
            if 3 in errs or t1 != open(os.path.join(wdir, n + "_tt.wat")).read():
                side_violation(c, "strip/%s/watstrip/idempotent" % n, {"module": n, "step": "strip twice", "error": errs.get(3, "texts differ"), "wat": src})
            fmt = open(os.path.join(wdir, n + "_f.wat")).read()
            reach, allf = reachable_functions(fmt)
            _, kept = reachable_functions(t1)
            unnamed = "\t(func (" in fmt or "\t(func\n" in fmt
            if not unnamed and not n.startswith("index") and ("(func" not in fmt or allf):
                if kept != reach:
                    side_violation(c, "strip/%s/watstrip/removes-exactly-the-unreachable-functions" % n,
                                   {"module": n, "step": "compare the kept function set with independent reachability",
                                    "kept_but_unreachable": sorted(kept - reach)[:20], "removed_but_reachable": sorted(reach - kept)[:20], "wat": src})
                c.notes.append("NOTE: %s: %d functions, %d reachable, %d kept" % (n, len(allf), len(reach), len(kept)))
    nrepo = repo_files(c, wdir, ov, transform_cmd, prop)
    c.extra_cov["programs"] = len(NAMES) + nrepo
    c.bounds["i32_argument_bounds"] = {k: v for k, v in ARGMAX}
    extra = pairs_file(c.scratch, usable)
    vlib.REPLAY_ENV["VF_WASM_DIR"] = wdir
    wasm = ",".join("%s=%s" % (m, os.path.join(wdir, m + ".wasm")) for n in usable for m in (n, n + "_t"))
    c.run_unit(WH, "wh", harnesses=["VfH_equiv"], extra_pkgs=PKGS[1:], extra_overlay=extra,
               opts={"wasm": wasm, "samples": 1, "maxdecisions": 4000, "tasktimeout": "120s"})
    return c.finish()


def replay_equiv(prop, transform_cmd, path):
    rec = json.load(open(path))
    if rec.get("engine") == "wbuild":
        sc = vlib.scratch_dir(prop + "-replay")
        try:
            ov = vlib.make_overlay(sc, PKGS)
            wat = os.path.join(sc, "in.wat")
            open(wat, "w").write(rec["wat"])
            steps = [["wat2wasm", wat, sc + "/a.wasm"], [transform_cmd, wat, sc + "/t.wat"], ["wat2wasm", sc + "/t.wat", sc + "/b.wasm"],
                     [transform_cmd, sc + "/t.wat", sc + "/tt.wat"]]
            failed = vlib.build_wasm_keepgoing(sc, ov, steps)
            bad = bool(failed)
            for k, e in failed.items():
                print("step %s failed: %s" % (steps[k][0], e))
            if not failed:
                same = open(sc + "/a.wasm", "rb").read() == open(sc + "/b.wasm", "rb").read()
                idem = open(sc + "/t.wat").read() == open(sc + "/tt.wat").read()
                print("binary identical: %s; transform idempotent: %s" % (same, idem))
                key = rec.get("key", "")
                bad = (key.endswith("same-binary") and not same) or (key.endswith("idempotent") and not idem)
                if key.endswith("removes-exactly-the-unreachable-functions"):
                    vlib.build_wasm(sc, ov, [["watfmt", wat, sc + "/f.wat"]])
                    reach, _ = reachable_functions(open(sc + "/f.wat").read())
                    _, kept = reachable_functions(open(sc + "/t.wat").read())
                    print("kept but unreachable:", sorted(kept - reach)[:20], "removed but reachable:", sorted(reach - kept)[:20])
                    bad = kept != reach
            print("REPRODUCED" if bad else "NOT-REPRODUCED")
            return 1 if bad else 0
        finally:
            shutil.rmtree(sc, ignore_errors=True)

    def prepare(sc):
        wdir = os.path.join(sc, "wasm")
        os.makedirs(wdir)
        ov = vlib.make_overlay(sc, PKGS)
        corpus(sc, wdir, ov)
        build_all(sc, wdir, ov, transform_cmd, prop == "C05")
        usable = [n for n in NAMES if os.path.exists(os.path.join(wdir, n + "_t.wasm"))]
        vlib.REPLAY_ENV["VF_WASM_DIR"] = wdir
        return pairs_file(sc, usable), PKGS[1:]
    return vlib.replay_file(prop, path, prepare=prepare)


ASSUME = [
    "corpus (enumerated, not every module): 123 one-instruction numeric functions, 92 load/store functions with offset/align immediates (unnamed functions with inline exports), the hand-written control module (branches, br_table, loop, if/else, select, call_indirect, globals, memory.grow, boundary constants), a declaration module (imports of a function and a global, memory and table limits, types, globals of all four types, data strings with escapes, elem, start, stand-alone and inline exports, float constants at rounding boundaries, unnamed locals and parameters, block results, memory.copy/fill, nop, unreachable), two modules aimed at stripping (dead functions, functions reachable only through start / the table / nested blocks, an import used only by dead code; index references and unnamed functions), the expanded allocator malloc.wat, and the compiler's output for the C01 template program with its whole runtime",
    "for every function exported by the original module the original binary and the transformed one are executed symbolically with the same symbolic arguments and a symbolic 16-byte memory window; trap outcome, results (NaN payloads ignored), the window, the page count and the number of host calls must agree; the export must still exist with the same signature; i32 arguments that are addresses, sizes, table indices or loop counts are bounded as listed under bounds, every other argument is unconstrained",
    "in addition every .wat file carried by the repository (parser/watutil test data, waroot examples) that the tree assembles is checked textually: same binary and idempotence for the printer, output assembles and idempotence for the stripper; no symbolic execution there",
    "host functions return 0; call sequences longer than one call per fresh instance are outside (the start function runs at instantiation in both)",
]


def run(tier, seed):
    return run_equiv("C05", tier, seed, "watfmt", "the printed-and-reparsed", ASSUME + [
        "decisive as the property states it: wat2wasm(print(parse(src))) is byte-identical to wat2wasm(src) for every corpus module, and printing the printed text again gives the same text",
        "acceptance of the printed text by a reference assembler (WABT) is outside: none is available in the sandbox",
    ])


def replay(path):
    return replay_equiv("C05", "watfmt", path)
