"""C22 — computed text diffs apply back to the target text (E1 gosym)."""
import vlib

def run(tier, seed):
    c = vlib.GoCheck("C22", "model_checking", tier, seed)
    n = 3 if tier == "quick" else 4
    c.assumptions = [
        "two texts of 0..%d fully symbolic bytes each, assumed valid UTF-8 (ASCII, multi-byte and mixed); diff.Strings and diff.Bytes" % n,
        "Apply/validate additionally on two arbitrary edits with symbolic bounds in [-1,4] over a 3-byte text",
        "unified-diff rendering (ToUnified, fmt-heavy line rendering) is outside this check",
    ]
    lim = (n + 1) * 5  # cases are (len(before) + 5*len(after)); restrict len(after) <= n
    c.bounds["text_bytes_max"] = n
    c.run_unit("internal/lsp/diff", "diff", opts={"maxdecisions": 3000, "samples": 3,
               "caselimit": "VfH_strings=%d,VfH_bytes=%d" % (lim, lim)})
    return c.finish()
