"""C12 — discarded acyclic data is reclaimed: loops run in bounded heap (E2 wasmsym, live-block accounting)."""
import importlib.util, os, vlib
spec = importlib.util.spec_from_file_location("c11", os.path.join(vlib.VERIF, "checks", "C11.py"))
c11 = importlib.util.module_from_spec(spec)
spec.loader.exec_module(c11)


def run(tier, seed):
    return c11.run_mm("C12", tier, seed, "VfH_c12", lambda n11, n12: [
        "program dimension: %d loop templates whose iterations leave nothing reachable (slices, append, strings, struct pointers, closures, interface boxing, maps created per iteration, insert/delete of the same key, reassigned slices and strings), enumerated; the data parameter is symbolic" % n12,
        "the compiled program is instrumented as in C11 (allocation and release counters in runtime.HeapAlloc/HeapFree); each template runs on a fresh instance with 6, 12 and 24 iterations (a variable's previous block is released after its next one is allocated, so the heap top settles after the second iteration): the number of live blocks (allocations minus releases) and the heap top (__heap_ptr) must not grow from each checkpoint to the next",
        "iteration counts other than 6, 12 and 24, loop bodies outside the template set and cyclic data are outside",
    ])
