"""C01 — compiled Wa programs compute what the equivalent Go program computes (E2 wasmsym vs E1 gosym)."""
import os, sys, vlib
sys.path.insert(0, os.path.dirname(os.path.abspath(vlib.__file__)))
import c01gen

WH = "internal/zzverif/wh"
WB = "internal/zzverif/wbuild"

def run(tier, seed):
    c = vlib.GoCheck("C01", "translation_validation", tier, seed)
    wa_src, go_src, cases = c01gen.gen(tier)
    c.assumptions = [
        "program dimension: an enumerated matrix of %d templates (every binary/unary operator x every integer and float type, shifts by u32%s counts, comparisons, every numeric conversion pair, Boolean connectives, if/else, a bounded loop, switch, mixed-width expressions), not every program" % (len(cases), "" if tier == "quick" else "/u64"),
        "input dimension: all parameter values of the declared types, symbolic; sub-word parameters in range as the Wa ABI guarantees",
        "oracle: the same program in Go, executed by the Go symbolic executor (pinned to the real Go compiler by native replay of path models); domain = inputs on which the Go twin does not panic; float->integer conversions only for representable values; NaN payloads not compared",
        "the whole pipeline is run on the current tree: loader, type checker, SSA builder, WAT back end, wat2wasm; the resulting binary is what is executed",
    ]
    wdir = os.path.join(c.scratch, "wasm")
    os.makedirs(wdir)
    open(os.path.join(wdir, "c01.wa"), "w").write(wa_src)
    gpath = os.path.join(c.scratch, "zz_verif_c01_gen.go")
    open(gpath, "w").write(go_src)
    extra = {os.path.join(vlib.REPO, WH, "zz_verif_c01_gen.go"): gpath}
    ov = vlib.make_overlay(c.scratch, [{"dir": WH, "name": "wh"}, {"dir": WB, "name": "main", "rt": False}], extra)
    vlib.build_wasm(c.scratch, ov, [["wa", os.path.join(wdir, "c01.wa"), os.path.join(wdir, "c01.wasm")]])
    vlib.REPLAY_ENV["VF_WASM_DIR"] = wdir
    c.extra_cov["programs"] = len(cases)
    c.run_unit(WH, "wh", harnesses=["VfH_c01"], extra_pkgs=[{"dir": WB, "name": "main", "rt": False}], extra_overlay=extra,
               opts={"wasm": "c01=" + os.path.join(wdir, "c01.wasm"), "samples": 2, "maxdecisions": 4000})
    return c.finish()
